"""C12 - a failure leaves a consistent, resumable prefix of the trajectory."""
import math
import impl, loopsim
from impl import np, de, I, DS

ID = "C12"
LEAN_TARGETS = ["DVP.Properties.C12"]
PROPERTY_FILES = ["DVP/Properties/C12.lean"]
RULE = ("crash-point enumeration on the real OdeSystem: for a short run of each method family (explicit, FSAL adaptive, implicit, "
        "splitting, Richardson) and both directions, the k-th evaluation of the right-hand side / callback / event function raises, for "
        "every k (thorough) or a seeded subset (quick); the state after the failure is compared with the fault-free run (prefix, bit for "
        "bit), with the Lean loop model (replay), then the run is resumed and reset. non-trivial = fault position after the first "
        "accepted step; distinct by (method, direction, site, k)")
ASSUMPTIONS = ["the integrator-internal state after a fault (slope cache, controller memory) is outside the loop model; its consequences are "
               "checked on the implementation (resumed run vs fault-free run at tolerance level)"]


class Boom(Exception):
    pass


class CountingRHS:
    def __init__(self, f, fault_at=None, kind="raise"):
        self.f, self.n, self.fault_at, self.kind = f, 0, fault_at, kind

    def __call__(self, t, y, **kw):
        k = self.n
        self.n += 1
        if self.fault_at is not None and k == self.fault_at:
            if self.kind == "interrupt":
                raise KeyboardInterrupt()
            raise Boom("rhs fault at evaluation %d" % k)
        return self.f(t, y)


def base_f(t, y):
    return np.array([y[1], -y[0] - 0.05 * y[1] + 0.1 * np.cos(t)])


AGAINST = [False]      # when set, the systems are built with the OPPOSITE span and every call names its target: integrate(t=...) against the span


def build(method, direction, rhs, dense=True, events=None):
    t0, tf = (0.0, 1.0) if direction > 0 else (1.0, 0.0)
    kw = {}
    if getattr(method, "__name__", "").startswith(("RK45", "DOPRI", "Richardson")):
        kw = dict(rtol=1e-6, atol=1e-8)
    if AGAINST[0]:
        ode = de.OdeSystem(rhs, y0=np.array([1.0, 0.0]), t=(t0, t0 - (tf - t0)), dt=0.2, dense_output=dense, **kw)
        TARGETS[id(ode)] = tf
    else:
        ode = de.OdeSystem(rhs, y0=np.array([1.0, 0.0]), t=(t0, tf), dt=0.2, dense_output=dense, **kw)
    ode.set_method(method)
    return ode


TARGETS = {}


def go(ode, **kw):
    """`integrate()` to the end of the span, or, for a system built against its span, `integrate(t=target)`"""
    if id(ode) in TARGETS:
        return ode.integrate(TARGETS[id(ode)], **kw)
    return ode.integrate(**kw)


def snapshot(ode):
    return dict(t=np.array(ode.t), y=np.array(ode.y), status=loopsim.status_code(ode), msg=ode.integration_status,
                nsol=len(ode._OdeSystem__sol), sol_t=[float(x) for x in (ode._OdeSystem__sol.t_eval or [])], nev=len(ode.events), success=ode.success)


def check_fault(ctx, mname, method, direction, site, k, ref, kind="raise", events=None):
    inp = dict(kind="fault", method=mname, direction=direction, site=site, k=k, fault=kind, against_span=AGAINST[0])
    rhs = CountingRHS(base_f, fault_at=None, kind=kind)
    ode = build(method, direction, rhs)
    base_n = rhs.n      # evaluations made by the constructor are before position 0 of the run
    rhs.fault_at = None if site != "rhs" else base_n + k
    cb_n = [0]

    def cb(o):
        i = cb_n[0]
        cb_n[0] += 1
        if site == "callback" and i == k:
            if kind == "interrupt":
                raise KeyboardInterrupt()
            raise Boom("callback fault at step %d" % i)
    ev_n = [0]

    def ev(t, y):
        i = ev_n[0]
        ev_n[0] += 1
        if site == "event" and i == k:
            if kind == "interrupt":
                raise KeyboardInterrupt()
            raise Boom("event fault at evaluation %d" % i)
        return y[0] - 0.8      # crosses during the run (non-terminal)
    exc = None
    try:
        go(ode, callback=[cb], events=[ev] if site == "event" else None)
    except de.exception_types.FailedIntegration as e:
        exc = ("FailedIntegration", type(e.__cause__).__name__ if e.__cause__ is not None else None)
    except KeyboardInterrupt:
        exc = ("KeyboardInterrupt", None)
    except BaseException as e:
        exc = ("other:" + type(e).__name__, None)
    snap = snapshot(ode)
    if exc is None:
        # fault position beyond the evaluations of this run: nothing to check
        return False
    if kind == "interrupt":
        ctx.oracle("interrupt-propagates", exc[0] == "KeyboardInterrupt" and snap["status"] == 4, inp, what="keyboard interrupt surfaced as %r, status %r" % (exc, snap["status"]))
    else:
        ctx.oracle("failure-type-and-cause", exc == ("FailedIntegration", "Boom") and snap["status"] == 3 and not snap["success"] and "Boom" in snap["msg"] or "fault" in snap["msg"], inp,
                   what="failure surfaced as %r, status %r, message %r" % (exc, snap["status"], snap["msg"][:80]))
    n = len(snap["t"])
    ok_prefix = n <= len(ref["t"]) and np.array_equal(snap["t"], ref["t"][:n]) and np.array_equal(snap["y"], ref["y"][:n])
    ctx.oracle("prefix-of-fault-free-run", bool(ok_prefix), inp, what="recorded trajectory after the fault (%d samples) is not a prefix of the fault-free run" % n)
    ctx.oracle("paired-finite", len(snap["y"]) == n and bool(np.all(np.isfinite(snap["y"]))), inp, what="unpaired or non-finite buffers after the fault")
    # dense output covers exactly the accepted steps
    # (Richardson wrappers add one piece per sub-step, so coverage is judged by the range, not by the count)
    want_pieces = n - 1
    st = snap["sol_t"]
    ulp = 8 * np.spacing(max(1.0, abs(float(snap["t"][-1]))))
    if want_pieces == 0:
        ok_dense = len(st) == 0
    else:
        sts = sorted(st, key=lambda x: x * direction)
        ok_dense = len(st) >= want_pieces and all((x - snap["t"][0]) * direction > 0 and (snap["t"][-1] - x) * direction >= -ulp for x in sts) \
            and abs(sts[-1] - snap["t"][-1]) <= ulp and all((b - a) * direction > 0 for a, b in zip(sts, sts[1:]))
    key = "event-fault-leaves-dense-piece" if site == "event" else "dense-covers-prefix"
    ctx.oracle("dense-covers-prefix", ok_dense, dict(inp, piece_end_times=st[-4:], last_recorded=float(snap["t"][-1])), key=key,
               what="dense output pieces end at %s but the accepted prefix ends at %r" % (st[-3:], float(snap["t"][-1])))
    # resume
    rhs.fault_at = None
    try:
        if site == "event":
            go(ode, events=[ev])
        else:
            go(ode)
        res = snapshot(ode)
        if site == "event":
            got = sorted(float(e.t) for e in ode.events)
            want = ref["event_times"]
            # same events as the fault-free run; their times as accurate as the fault-free run's own (the step sequence after a
            # resume may differ: the integrator's controller has seen the abandoned step)
            true = ref["true_event_times"]
            ok_ev = len(got) == len(want) and (len(true) != len(want) or all(abs(a - tt) <= 3 * abs(b - tt) + 1e-6 for a, b, tt in zip(got, want, true)))
            ctx.oracle("events-after-resume", ok_ev, dict(inp, events=got, fault_free_events=want), key="event-fault-leaves-dense-piece" if len(got) >= len(want) else "event-lost-after-event-fault",
                       what="after an event-function fault and resuming, events at %s; the fault-free run reports %s" % (got, want))
        exact_end = ref["sol"](ref["t"][-1])
        err_ref = float(np.max(np.abs(ref["y"][-1] - exact_end)))
        err_res = float(np.max(np.abs(res["y"][-1] - exact_end)))
        ok_res = abs(res["t"][-1] - ref["t"][-1]) <= 1e-12 and err_res <= 4 * err_ref + 1e-8 and np.array_equal(res["t"][:n], snap["t"]) and np.array_equal(res["y"][:n], snap["y"])
        mono = bool(np.all(np.diff(res["t"]) * direction > 0))
        ctx.oracle("resume-continues", bool(ok_res and mono), inp, what="resumed run ends at t=%r y=%r, fault-free %r %r" % (res["t"][-1], res["y"][-1], ref["t"][-1], ref["y"][-1]))
        # (a call made when already at the target changes nothing, C13: only a call that had work to do must report success)
        ctx.oracle("status-after-successful-resume", res["status"] == 1 or len(res["t"]) == n, dict(inp, status=res["status"]), key="status-stale-after-resume",
                   what="integration_status after a successful continuation still reports the earlier failure")
        # dense output after the resumed run: accurate at the midpoints of the steps
        if res["nsol"] > 0:
            tm = 0.5 * (res["t"][:-1] + res["t"][1:])
            dense = np.array([ode.sol(x) for x in tm])
            fine = np.array([ref["sol"](x) for x in tm])
            err = float(np.max(np.abs(dense - fine)))
            ctx.oracle("dense-after-resume", err <= 20 * ref["dense_err"] + 1e-9, dict(inp, err=err, ref_err=ref["dense_err"]),
                       key="event-fault-leaves-dense-piece" if site == "event" else "dense-stale-slope-after-fault",
                       what="dense output after fault+resume is off by %.2e (fault-free run: %.2e)" % (err, ref["dense_err"]))
    except Exception as e:
        ctx.oracle("resume-continues", False, inp, what="resuming after the fault raised %r" % (e,))
    # reset restores a pristine system
    try:
        ode.reset()
        s0 = snapshot(ode)
        ok0 = len(s0["t"]) == 1 and s0["status"] == 0 and s0["nsol"] == 0 and s0["nev"] == 0 and ode.nfev == 0 and np.array_equal(s0["y"][0], ref["y"][0])
        go(ode)
        s1 = snapshot(ode)
        ok1 = np.array_equal(s1["t"], ref["t"]) and np.array_equal(s1["y"], ref["y"])
        ctx.oracle("reset-pristine", bool(ok0 and ok1), inp, what="after reset the rerun differs from the fault-free run (bitwise)")
    except Exception as e:
        ctx.oracle("reset-pristine", False, inp, what="reset/rerun raised %r" % (e,))
    return True


def reference(method, direction):
    rhs = CountingRHS(base_f)
    ode = build(method, direction, rhs)
    n0 = rhs.n
    steps = [0]
    go(ode, callback=[lambda o: steps.__setitem__(0, steps[0] + 1)])
    ref = snapshot(ode)
    ref["nfev_run"] = rhs.n - n0
    ref["steps"] = steps[0]
    ode_ev = build(method, direction, CountingRHS(base_f))
    go(ode_ev, events=[lambda t, y: y[0] - 0.8])
    ref["event_times"] = sorted(float(e.t) for e in ode_ev.events)
    # a fine reference for the dense-output comparison
    from scipy.integrate import solve_ivp
    r = solve_ivp(base_f, (ref["t"][0], ref["t"][-1]), ref["y"][0], method="DOP853", rtol=1e-12, atol=1e-13, dense_output=True)
    ref["sol"] = lambda x: r.sol(x)
    # the true crossing times of the monitored event function (reference solution, bisection on a fine grid)
    xs = np.linspace(float(ref["t"][0]), float(ref["t"][-1]), 4001)
    gs = np.array([r.sol(x)[0] - 0.8 for x in xs])
    true = []
    for a, b, ga, gb in zip(xs[:-1], xs[1:], gs[:-1], gs[1:]):
        if ga * gb < 0:
            for _ in range(60):
                m = 0.5 * (a + b)
                gm = r.sol(m)[0] - 0.8
                if ga * gm <= 0:
                    b, gb = m, gm
                else:
                    a, ga = m, gm
            true.append(0.5 * (a + b))
    ref["true_event_times"] = sorted(true)
    tm = 0.5 * (ref["t"][:-1] + ref["t"][1:])
    ref["dense_err"] = float(np.max(np.abs(np.array([ode.sol(x) for x in tm]) - np.array([r.sol(x) for x in tm]))))
    return ref


def families():
    return [("RK4Solver", I.RK4Solver), ("RK45CKSolver", I.RK45CKSolver), ("DOPRI45", I.DOPRI45), ("BackwardEuler", I.BackwardEuler),
            ("SymplecticEulerSolver", I.SymplecticEulerSolver), ("Richardson(RK4,3)", de.integrators.generate_richardson_integrator(I.RK4Solver, 3))]


def event_loop_block(ctx):
    """calls with events and faults (integrator, event function, callback, interrupt; also inside the nested call of a terminal event)
    against the Lean model `DV.LoopEv`, and the C12 clauses visible on the time grid: the recorded prefix survives, the status reports
    the failure, a later call resumes"""
    import evloopsim
    scs = evloopsim.run_block(ctx, "C12", 30, 300)
    for sc in scs:
        prev = None
        for op, rec in zip(sc.ops, sc.records):
            if op[0] in ("int", "evint") and rec.get("exc") is not None and prev is not None:
                inp = dict(kind="event-loop-fault", method=sc.method.__name__, dense=sc.dense, ops=str(sc.ops)[:600], op=str(op)[:300])
                n = len(prev["t"])
                ctx.oracle("fault-keeps-recorded-prefix", rec["t"][:n] == prev["t"], dict(inp, before=prev["t"][-3:], after=rec["t"][max(0, n - 3):n]),
                           what="a call that failed changed samples recorded before it")
                ctx.oracle("fault-status", rec["status"] in (3, 4) and not rec["success"] and rec["exc"] in ("FailedIntegration", "KeyboardInterrupt"),
                           dict(inp, status=rec["status"], exc=rec["exc"], success=rec["success"]), what="failed call: status %r, exception %r, success %r" % (rec["status"], rec["exc"], rec["success"]))
                same_way = all(x[0] in ("new", "setdt") or (x[0] in ("int", "evint") and x[1] is None) for x in sc.ops[:sc.ops.index(op) + 1])
                if same_way and len(rec["t"]) > 1:
                    d = rec["t"][1] - rec["t"][0]
                    ctx.oracle("fault-leaves-monotone-grid", all((b - a) * d > 0 for a, b in zip(rec["t"], rec["t"][1:])), dict(inp, tail=rec["t"][-4:]),
                               what="recorded times not monotone after a failed call")
            prev = rec


def blowup_block(ctx):
    """tolerances that cannot be met: y' = y^2 runs into its singularity at |t| = 1 with fixed-step implicit schemes; sooner or later the
    stage equations have no solution.  The call must fail with the integration-failure error (or, if it gets through, every recorded step
    must be a genuine step of the scheme): whatever is recorded is finite, paired, monotone, and satisfies the scheme's defining equation"""
    def rhs(t, y):
        return y ** 2
    for mname, dt in [("BackwardEuler", 0.05), ("ImplicitMidpoint", 0.05), ("BackwardEuler", 0.2), ("ImplicitMidpoint", 0.3), ("CrankNicolson", 0.1)]:
        for sign in (1.0, -1.0):
            inp = dict(kind="tolerances-cannot-be-met", method=mname, direction=sign, dt=dt)
            ode = de.OdeSystem(rhs, y0=np.array([1.0 * sign]), t=(0.0, 2.0 * sign), dt=dt, dense_output=True, rtol=1e-6, atol=1e-9)
            ode.set_method(getattr(I, mname))
            exc = None
            try:
                ode.integrate()
            except de.exception_types.FailedIntegration as e:
                exc = e
            except Exception as e:
                ctx.oracle("failure-is-reported-as-integration-failure", False, dict(inp, error=repr(e)[:200]), what="integrate raised %r instead of FailedIntegration" % (e,))
                continue
            t, y = np.array(ode.t), np.array(ode.y)
            finite = bool(np.all(np.isfinite(t)) and np.all(np.isfinite(y)))
            ctx.oracle("recorded-prefix-finite", finite and len(t) == len(y), dict(inp, tail=[float(v) for v in y.reshape(-1)[-3:]], raised=exc is not None),
                       what="recorded states are not finite after a run into a singularity (raised: %r)" % (exc is not None,))
            if finite and mname in ("BackwardEuler", "ImplicitMidpoint", "CrankNicolson"):
                worst = 0.0
                for i in range(len(t) - 1):
                    h, a, b = t[i + 1] - t[i], y[i][0], y[i + 1][0]
                    r = {"BackwardEuler": b - a - h * b ** 2, "ImplicitMidpoint": b - a - h * (0.5 * (a + b)) ** 2, "CrankNicolson": b - a - 0.5 * h * (a ** 2 + b ** 2)}[mname]
                    worst = max(worst, abs(r) / max(1.0, abs(b)))
                ctx.oracle("recorded-steps-are-steps-of-the-scheme", worst <= 1e-6, dict(inp, residual=worst, steps=len(t) - 1, raised=exc is not None),
                           what="a recorded step misses the defining equation of %s by %.2e (relative)" % (mname, worst))
            if exc is None:
                ctx.oracle("status-consistent", ode.success and abs(float(t[-1]) - 2.0 * sign) <= 1e-9, dict(inp, status=ode.integration_status, end=float(t[-1])), what="no exception but status %r, end %r" % (ode.integration_status, float(t[-1])))
                ctx.count("blowup:ran-through")
            else:
                ctx.oracle("status-consistent", (not ode.success) and "fail" in ode.integration_status.lower(), dict(inp, status=ode.integration_status), what="FailedIntegration raised but status %r" % (ode.integration_status,))
                ctx.count("blowup:raised:" + type(exc.__cause__).__name__)
            if ode.sol is not None:
                ctx.oracle("dense-covers-exactly-the-recorded-steps", len(ode.sol) == len(t) - 1, dict(inp, pieces=len(ode.sol), steps=len(t) - 1), what="%d dense pieces for %d recorded steps" % (len(ode.sol), len(t) - 1))


def run(ctx):
    rng = ctx.rng
    event_loop_block(ctx)
    blowup_block(ctx)
    for mname, method in families():
        for direction in (1, -1):
            try:
                ref = reference(method, direction)
            except Exception as e:
                ctx.oracle("reference-run", False, dict(kind="fault", method=mname, direction=direction), what="fault-free run raised %r" % (e,))
                continue
            nf = ref["nfev_run"]
            ks = list(range(nf))
            if ctx.quick():
                ks = sorted(set([0, 1, nf - 1] + rng.sample(ks, min(len(ks), 6))))
            for k in ks:
                if check_fault(ctx, mname, method, direction, "rhs", k, ref):
                    ctx.count("site:rhs")
                    if k > 4:
                        ctx.nontrivial((mname, direction, "rhs", k))
            cks = list(range(ref["steps"])) if not ctx.quick() else sorted(set([0, ref["steps"] - 1, rng.randrange(ref["steps"])]))
            for k in cks:
                if check_fault(ctx, mname, method, direction, "callback", k, ref):
                    ctx.count("site:callback")
                    ctx.nontrivial((mname, direction, "callback", k))
            eks = [0, 1, 5, 12, 30] if ctx.quick() else list(range(0, 60, 3))
            for k in eks:
                if check_fault(ctx, mname, method, direction, "event", k, ref):
                    ctx.count("site:event")
                    ctx.nontrivial((mname, direction, "event", k))
            check_fault(ctx, mname, method, direction, "rhs", min(7, nf - 1), ref, kind="interrupt")
            # a keyboard interrupt inside an event function and inside a callback (not an Exception: handlers must not be narrower)
            for k in ([2, 11] if ctx.quick() else [0, 2, 5, 11, 20, 33]):
                if check_fault(ctx, mname, method, direction, "event", k, ref, kind="interrupt"):
                    ctx.count("site:event:interrupt")
            check_fault(ctx, mname, method, direction, "callback", min(2, ref["steps"] - 1), ref, kind="interrupt")
            ctx.count("family:" + mname)
            ctx.sample(dict(method=mname, direction=direction, rhs_evaluations=nf, steps=ref["steps"], fault_positions=ks[:8]), limit=4)
    # the same fault sites for calls made AGAINST the system's own span (integrate(t=...) on the other side of t0): nothing in the
    # fault handling may depend on the direction of the span instead of the direction of the call
    AGAINST[0] = True
    try:
        for mname, method in families()[:2] if ctx.quick() else families()[:4]:
            for direction in (1, -1):
                try:
                    ref = reference(method, direction)
                except Exception as e:
                    ctx.oracle("reference-run", False, dict(kind="fault", method=mname, direction=direction, against_span=True), what="fault-free run raised %r" % (e,))
                    continue
                for site, ks, kind in [("event", [1, 5, 12, 30] if ctx.quick() else list(range(0, 60, 4)), "raise"), ("event", [2, 11], "interrupt"),
                                       ("rhs", [1, ref["nfev_run"] // 2, ref["nfev_run"] - 1], "raise"), ("callback", [0, ref["steps"] - 1], "raise")]:
                    for k in ks:
                        if check_fault(ctx, mname, method, direction, site, k, ref, kind=kind):
                            ctx.count("site:%s:against-span" % site)
    finally:
        AGAINST[0] = False
        TARGETS.clear()
    # a fault inside a RETRY attempt (after a rejected attempt of the same step), then resume: the resumed run's dense pieces
    # must have the right-hand side as end slopes (shared with C06)
    import p_c06
    p_c06.fault_in_retry(ctx, rng)
    # the exception TYPE must not matter: a right-hand side that raises a ValueError once (a common Python error) is a failing call too
    for mname, method in [("RK45CKSolver", I.RK45CKSolver), ("RK4Solver", I.RK4Solver), ("BackwardEuler", I.BackwardEuler)]:
        for direction in (1, -1):
            for k in ([3, 9] if ctx.quick() else [1, 3, 6, 9, 14, 20]):
                n = [0]

                def f_ve(t, y, n=n, k=k):
                    i = n[0]
                    n[0] += 1
                    if i == k:
                        raise ValueError("user right-hand side: value error at evaluation %d" % k)
                    return base_f(t, y)
                ode = build(method, direction, f_ve)
                n[0] = 0
                raised = None
                try:
                    ode.integrate()
                except de.exception_types.FailedIntegration as e:
                    raised = type(e.__cause__).__name__
                except Exception as e:
                    raised = "other:" + type(e).__name__
                if n[0] <= k:
                    continue                      # the run ended before evaluation k
                ctx.oracle("any-exception-type-surfaces", raised == "ValueError", dict(kind="fault", method=mname, direction=direction, site="rhs", k=k, fault="ValueError", surfaced=raised, status=loopsim.status_code(ode)),
                           key="user-valueerror-swallowed-inside-step" if raised is None else "any-exception-type-surfaces",
                           what="the right-hand side raised ValueError at evaluation %d: the call %s" % (k, "completed as if nothing had happened (status %r)" % (loopsim.status_code(ode),) if raised is None else "surfaced %r" % raised))
                ctx.count("valueerror-fault:%s" % ("swallowed" if raised is None else "surfaced"))
    # tolerances that cannot be met: a right-hand side that leaves its domain (NaN) under an adaptive explicit method must
    # end in the library's failure error, never in NaN rows recorded as a success
    for mname, method in [("RK45CKSolver", I.RK45CKSolver), ("DOPRI45", I.DOPRI45), ("RK8713MSolver", I.RK8713MSolver)]:
        for direction in (1, -1):
            tcrit = rng.uniform(0.3, 0.8)
            ncall = [0]

            def f_nan(t, y, tcrit=tcrit, direction=direction, ncall=ncall):
                ncall[0] += 1
                if ncall[0] > 20000:
                    raise loopsim.BudgetExceeded()
                with np.errstate(invalid="ignore"):
                    return np.array([y[1], -y[0] + np.sqrt((tcrit - t) * direction + 0.0)])
            ode = build(method, direction, f_nan)
            inp = dict(kind="nan-rhs", method=mname, direction=direction, tcrit=tcrit)
            t_start = float(ode.t[0])
            tc = tcrit if direction > 0 else tcrit
            try:
                if direction < 0:
                    # run from 1 down to 0: the domain is left below tcrit
                    pass
                ode.integrate()
                raised = False
            except de.exception_types.FailedIntegration:
                raised = True
            except loopsim.BudgetExceeded:
                ctx.count("nan-rhs:budget-exceeded")
                continue
            except Exception as e:
                raised = "other:%r" % (e,)
            finite = bool(np.all(np.isfinite(ode.y)) and np.all(np.isfinite(ode.t)))
            ctx.oracle("unmeetable-tolerances-raise", raised is True and finite and not ode.success, dict(inp, raised=str(raised), finite=finite, samples=len(ode.t)),
                       what="NaN right-hand side: raised=%s, stored values finite=%s, success=%s" % (raised, finite, ode.success))
            ctx.count("nan-rhs:" + mname)
    # the loop model with faults: replay of scenarios with integrator-level and callback faults, one and two successive faults
    scs, lines = [], []
    for i in range(40 if ctx.quick() else 400):
        cls = getattr(I, rng.choice(["RK4Solver", "RK45CKSolver", "EulerSolver", "DOPRI45"]))
        t0, tf = rng.choice([(0.0, 2.0), (1.0, -1.0), (-3.0, -1.5), (2.0, 0.5)])
        dt = abs(tf - t0) / rng.choice([4, 7, 10])
        o1 = dict(fault=rng.randrange(0, 8), fault_kind=rng.choice(["raise", "raise", "interrupt"])) if rng.random() < 0.7 else dict(cb_raise=rng.randrange(0, 5))
        ops = [("new", t0, tf, dt), ("int", None, o1)]
        if rng.random() < 0.5:
            ops.append(("int", None, dict(fault=rng.randrange(0, 4))))
        ops.append(("int", None, {}))
        if rng.random() < 0.3:
            ops += [("reset",), ("int", None, {})]
        sc = loopsim.Scenario(cls, ops, rtol=1e-6 if "45" in cls.__name__ else None, atol=1e-8 if "45" in cls.__name__ else None)
        try:
            sc.run_impl()
        except loopsim.BudgetExceeded:
            continue
        scs.append(sc)
        lines.append(sc.model_line())
    outs = ctx.driver(lines)
    for sc, o in zip(scs, outs):
        sc.compare(ctx, o, "fault-loop")

    # whole fixed-step runs abandoned by a fault, against the Lean whole-run model (DV.Run.integrateFault), and adaptive explicit runs
    # (with and without faults) judged step by step: every recorded state is its predecessor advanced by one step of the scheme
    import random as _random, runsim
    _r = _random.Random(ctx.seed * 7919 + 12)
    runsim.fault_run_block(ctx, _r, 2 if ctx.quick() else 12)
    runsim.adaptive_steps_block(ctx, _r, 2 if ctx.quick() else 12, faults=True)

    # an attempt that overflows (non-finite stage slopes) must not poison the integrator object: the retries of the same call, and in
    # any case a later call with a small step, continue from the recorded prefix (the stage storage is shared between attempts)
    for name in ["RK45CKSolver", "DOPRI45", "RK8713MSolver", "HeunEulerSolver"]:      # adaptive methods: they can shorten the step
        for sign in (1.0, -1.0):
            inp = dict(kind="overflowing-attempt-then-resume", method=name, direction=sign, dt0=1.0)
            ode = de.OdeSystem(lambda t, y, sign=sign: -sign * y ** 3, y0=np.array([10.0]), t=(0.0, sign * 0.5), dt=1.0, rtol=1e-8, atol=1e-10)
            ode.set_method(getattr(I, name))
            first = None
            try:
                with np.errstate(all="ignore"):
                    ode.integrate()
            except de.exception_types.FailedIntegration as e:
                first = type(e.__cause__).__name__ if e.__cause__ is not None else "FailedIntegration"
            except Exception as e:
                first = "other:" + type(e).__name__
            resumed = None
            if first is not None or not np.all(np.isfinite(np.array(ode.y))):
                try:
                    ode.dt = 1e-3
                    with np.errstate(all="ignore"):
                        ode.integrate()
                except Exception as e:
                    resumed = type(e).__name__
            ys = np.array(ode.y)[:, 0]
            ts = np.array(ode.t)
            finite = bool(np.all(np.isfinite(ys)))
            reached = abs(float(ts[-1]) - sign * 0.5) < 1e-9
            err = abs(float(ys[-1]) - 10.0 / np.sqrt(1 + 200.0 * abs(float(ts[-1])))) if finite else float("inf")
            ctx.oracle("resume-after-overflowing-attempt", finite and reached and err <= 1e-3 and resumed is None,
                       dict(inp, first_call=first, resumed_call=resumed, t_end=float(ts[-1]), error=err), key="integrator-poisoned-by-non-finite-attempt",
                       what="after an overflowing first attempt (first call: %r) the resumed call with dt = 1e-3 gave %r, t_end = %r, error %.2e" % (first, resumed, float(ts[-1]), err))
            ctx.count("overflow-then-resume:" + name)


def replay(rep):
    return False
