"""C17 - interval lookup and Hermite interpolation primitives are exact."""
import itertools, math
from fractions import Fraction as Fr
import impl
from impl import np, U, INTERP, q, qlist, fbits, flist

ID = "C17"
LEAN_TARGETS = ["DVP.Properties.C17"]
PROPERTY_FILES = ["DVP/Properties/C17.lean"]
RULE = ("bisection: every strictly increasing array of length 1..7 over the grid 0..8 with every query on the "
        "half-integer grid -1/2..17/2 (exhaustive), plus seeded random float64 arrays compared bit-exactly; "
        "Hermite: seeded random dyadic data, both orientations, queries inside/outside/at the ends. "
        "A case is non-trivial when the array has >= 2 elements (bisection) or the query is not an end point (Hermite); "
        "distinct = distinct (array, query) / (data, query) tuples")
ASSUMPTIONS = ["float64 comparisons of numpy scalars are IEEE comparisons (no NaN in the arrays)",
               "Hermite values of the implementation are compared with the exact rational value of the generated "
               "definition under a forward error bound of 64 ulp of the largest term"]


def spec_index(arr, v):
    for i, x in enumerate(arr):
        if x >= v:
            return i
    return len(arr) - 1


def impl_scalar(arr, v):
    return int(U.search_bisection(arr, v))


def impl_vec(arr, vs):
    return [int(i) for i in U.search_bisection_vec(np.asarray(arr), np.asarray(vs))]


def bisect_block(ctx, cases, mode):
    """cases: list of (arr, queries) ; mode 'q' exact ints/halves, 'f' float bits"""
    lines = []
    for arr, qs in cases:
        for v in qs:
            if mode == "q":
                lines.append("bisect q %s %s" % (q(v), qlist(arr)))
            else:
                lines.append("bisect f %s %s" % (fbits(v), flist(arr)))
    outs = ctx.driver(lines)
    k = 0
    for arr, qs in cases:
        a_np = np.asarray([float(x) for x in arr], dtype=np.float64)
        vec = impl_vec(a_np, np.asarray([float(v) for v in qs], dtype=np.float64))
        for j, v in enumerate(qs):
            ms, mv = outs[k].split()
            k += 1
            isc = impl_scalar(a_np, np.float64(float(v)))
            isl = impl_scalar([float(x) for x in arr], float(v))      # plain Python list, as DenseOutput uses
            ctx.corr("bisect-scalar", isc == int(ms) and isl == int(ms),
                     dict(arr=[str(x) for x in arr], q=str(v), impl=isc, impl_list=isl, model=int(ms)))
            ctx.corr("bisect-vector", vec[j] == int(mv), dict(arr=[str(x) for x in arr], q=str(v), impl=vec[j], model=int(mv)))
            want = spec_index([float(x) for x in arr], float(v))
            inp = dict(kind="bisect", arr=[float(x) for x in arr], q=float(v))
            ctx.oracle("bisect-spec-scalar", isc == want, inp, what="search_bisection returns %d, first element >= query (clipped) is %d" % (isc, want))
            ctx.oracle("bisect-spec-vector", vec[j] == want, inp, what="search_bisection_vec returns %d, spec %d" % (vec[j], want))
            if len(arr) >= 2:
                ctx.nontrivial(("b", tuple(float(x) for x in arr), float(v)))
            ctx.count("bisect:len%d" % min(len(arr), 8))
            ctx.count("bisect:" + ("below" if v < arr[0] else "above" if v > arr[-1] else "hit" if v in arr else "between"))


def hermite_block(ctx, n):
    rng = ctx.rng
    lines, cases = [], []

    def dy(lo=-8, hi=8, den=16):
        return Fr(rng.randint(lo * den, hi * den), den)
    for i in range(n):
        t0 = dy()
        dt = dy(-4, 4)
        if dt == 0:
            dt = Fr(1, 2)
        t1 = t0 + dt
        dim = rng.choice([1, 1, 2, 3])
        kind = rng.choice(["inside", "inside", "outside", "left", "right", "mid"])
        if kind == "inside":
            te = t0 + dt * Fr(rng.randint(1, 63), 64)
        elif kind == "outside":
            te = t0 + dt * Fr(rng.choice([-1, 1]) * rng.randint(65, 256), 64)
        elif kind == "left":
            te = t0
        elif kind == "right":
            te = t1
        else:
            te = t0 + dt / 2
        comps = []
        for d in range(dim):
            if rng.random() < 0.5:      # data from a cubic: exactness oracle applies
                a, b, c, dd = dy(-3, 3, 4), dy(-3, 3, 4), dy(-2, 2, 4), dy(-1, 1, 4)
                p = lambda x: a + b * x + c * x * x + dd * x ** 3
                dp = lambda x: b + 2 * c * x + 3 * dd * x * x
                comps.append(dict(p0=p(t0), p1=p(t1), m0=dp(t0), m1=dp(t1), cubic=(a, b, c, dd), val=p(te), der=dp(te)))
            else:
                comps.append(dict(p0=dy(), p1=dy(), m0=dy(), m1=dy(), cubic=None))
        cases.append((t0, t1, te, comps, kind))
        for cpt in comps:
            lines.append("hermite %s %s %s %s %s %s %s" % tuple(q(x) for x in (t0, t1, cpt["p0"], cpt["p1"], cpt["m0"], cpt["m1"], te)))
    outs = ctx.driver(lines)
    k = 0
    eps = 2.0 ** -52
    for (t0, t1, te, comps, kind) in cases:
        f = lambda x: np.float64(float(x))
        arr = lambda key: np.array([float(cc[key]) for cc in comps], dtype=np.float64) if len(comps) > 1 else f(comps[0][key])
        h = INTERP.CubicHermiteInterp(f(t0), f(t1), arr("p0"), arr("p1"), arr("m0"), arr("m1"))
        val = np.atleast_1d(h(f(te)))
        grd = np.atleast_1d(h.grad(f(te)))
        for j, cpt in enumerate(comps):
            mv, mg = outs[k].split()
            k += 1
            mv, mg = Fr(mv), Fr(mg)
            scale = max(abs(float(x)) for x in (cpt["p0"], cpt["p1"], cpt["m0"] * (t1 - t0), cpt["m1"] * (t1 - t0), 1)) * (1 + abs(float((te - t0) / (t1 - t0)))) ** 3
            gscale = scale / abs(float(t1 - t0))
            okv = abs(float(val[j]) - float(mv)) <= 64 * eps * scale
            okg = abs(float(grd[j]) - float(mg)) <= 64 * eps * gscale
            det = dict(t0=str(t0), t1=str(t1), te=str(te), data={kk: str(vv) for kk, vv in cpt.items() if kk in ("p0", "p1", "m0", "m1")})
            ctx.corr("hermite-value", okv, dict(det, impl=float(val[j]), model=str(mv)))
            ctx.corr("hermite-grad", okg, dict(det, impl=float(grd[j]), model=str(mg)))
            inp = dict(kind="hermite", **det)
            if cpt["cubic"] is not None:
                ctx.oracle("hermite-cubic-exact", abs(float(val[j]) - float(cpt["val"])) <= 64 * eps * scale, inp,
                           what="cubic not reproduced: %r vs %r" % (float(val[j]), float(cpt["val"])))
                ctx.oracle("hermite-grad-derivative", abs(float(grd[j]) - float(cpt["der"])) <= 64 * eps * gscale, inp,
                           what="gradient is not the derivative: %r vs %r" % (float(grd[j]), float(cpt["der"])))
            if kind == "left":
                ctx.oracle("hermite-end", float(val[j]) == float(cpt["p0"]) and float(grd[j]) == float(cpt["m0"]), inp, what="left end value/slope")
            if kind == "right":
                ctx.oracle("hermite-end", float(val[j]) == float(cpt["p1"]) and float(grd[j]) == float(cpt["m1"]), inp, what="right end value/slope")
            if kind not in ("left", "right"):
                ctx.nontrivial(("h", str(t0), str(t1), str(te), str(cpt["p0"]), str(cpt["m1"])))
        ctx.count("hermite:" + kind)
        ctx.count("hermite:" + ("reversed" if t1 < t0 else "forward"))
        ctx.sample(dict(kind="hermite", t0=str(t0), t1=str(t1), te=str(te), dim=len(comps)), limit=3)


def mixed_dtype_block(ctx):
    """queries whose dtype differs from the dtype of the array: integer queries on non-integer knots (also left of the origin), float32 /
    float16 queries on a finer float64 / float32 grid within rounding of a knot, Python lists; the index is the first element not smaller
    than the VALUE of the query, and the vector search agrees with the scalar one"""
    import random as _random
    r = _random.Random(ctx.seed * 49979687 + 17)
    cases = []
    for rep in range(40 if ctx.quick() else 400):
        n = r.choice([2, 3, 5, 9, 17])
        kind = r.choice(["int-on-float", "float32-on-float64", "float16-on-float32", "int32-list"])
        if kind in ("int-on-float", "int32-list"):
            arr = np.array(sorted(set(round(r.uniform(-6, 6) * 4) / 4 + r.choice([0.0, 0.25, 0.5, 0.3]) for _ in range(n))), dtype=np.float64)
            qs = np.array([r.randint(-7, 7) for _ in range(6)], dtype=r.choice([np.int64, np.int32, np.int8]))
        elif kind == "float32-on-float64":
            base = r.uniform(-3, 3)
            arr = np.array(sorted(set(base + k * 2.0 ** -30 for k in r.sample(range(-40, 40), n))), dtype=np.float64)
            qs = np.array([np.float32(x) for x in r.sample(list(arr), min(3, len(arr)))] + [np.float32(base)], dtype=np.float32)
        else:
            base = r.uniform(-3, 3)
            arr = np.array(sorted(set(np.float32(base + k * 2.0 ** -14) for k in r.sample(range(-40, 40), n))), dtype=np.float32)
            qs = np.array([np.float16(x) for x in r.sample(list(arr), min(3, len(arr)))] + [np.float16(base)], dtype=np.float16)
        if len(arr) < 2:
            continue
        exact_arr = [Fr(float(x)) for x in arr]
        try:
            vec = [int(i) for i in U.search_bisection_vec(arr if kind != "int32-list" else list(arr), qs if kind != "int32-list" else [int(v) for v in qs])]
        except Exception as e:
            ctx.oracle("bisect-mixed-dtype-runs", False, dict(kind="bisect-mixed", variant=kind, arr=arr.tolist(), q=qs.tolist()), what="raised %r" % (e,))
            continue
        for j, v in enumerate(qs):
            want = spec_index(exact_arr, Fr(float(v)))
            sc = int(U.search_bisection(arr, v))
            inp = dict(kind="bisect-mixed", variant=kind, arr=[float(x) for x in arr], array_dtype=str(arr.dtype), q=float(v), query_dtype=str(qs.dtype))
            ctx.oracle("bisect-spec-vector", vec[j] == want, inp, key="bisect-mixed-dtype", what="search_bisection_vec returns %d for a %s query on a %s array, spec %d" % (vec[j], qs.dtype, arr.dtype, want))
            ctx.oracle("bisect-spec-scalar", sc == want, inp, key="bisect-mixed-dtype", what="search_bisection returns %d for a %s query on a %s array, spec %d" % (sc, qs.dtype, arr.dtype, want))
        ctx.count("bisect-mixed:" + kind)


def inplace_time_block(ctx):
    """one Hermite piece queried repeatedly with ONE time array that the caller advances in place between the calls (t += dt), 0-d and
    1-element arrays, values and gradients interleaved: every answer belongs to the time the array holds when the call is made"""
    import random as _random
    r = _random.Random(ctx.seed * 67867967 + 17)
    for rep in range(20 if ctx.quick() else 200):
        t0 = r.uniform(-2, 2)
        t1 = t0 + r.choice([-1, 1]) * r.uniform(0.2, 2.0)
        a, b, c, d = (r.uniform(-2, 2) for _ in range(4))
        P = lambda t: a + b * t + c * t * t + d * t ** 3
        dP = lambda t: b + 2 * c * t + 3 * d * t * t
        piece = INTERP.CubicHermiteInterp(t0, t1, np.array([P(t0)]), np.array([P(t1)]), np.array([dP(t0)]), np.array([dP(t1)]))
        tq = np.array(t0 - 0.3) if r.random() < 0.5 else np.array([t0 - 0.3])
        step = (t1 - t0) / 5.0
        inp = dict(kind="hermite-inplace-time", t0=t0, t1=t1, coeffs=[a, b, c, d], shape=list(tq.shape))
        worst = 0.0
        for k in range(8):
            tv = float(np.reshape(tq, (-1,))[0])
            if r.random() < 0.5:
                got, want = piece(tq), P(tv)
            else:
                got, want = piece.grad(tq), dP(tv)
            worst = max(worst, abs(float(np.reshape(got, (-1,))[0]) - want))
            tq += step
        ctx.oracle("hermite-cubic-exact", worst <= 1e-9 * (1 + abs(a) + abs(b) + abs(c) + abs(d)) * 30, dict(inp, worst=worst), key="hermite-answers-an-earlier-time",
                   what="queried with a time array advanced in place, the piece answered for another time (error %.2e)" % worst)
        ctx.count("hermite-inplace-time")


def run(ctx):
    mixed_dtype_block(ctx)
    inplace_time_block(ctx)
    # 1. exhaustive small scope (both tiers: it is cheap)
    grid = list(range(9))
    queries = [Fr(k, 2) for k in range(-1, 18)]
    cases = []
    for n in range(1, 8):
        for comb in itertools.combinations(grid, n):
            cases.append((list(comb), queries))
    bisect_block(ctx, cases, "q")
    ctx.exhaustive = True
    ctx.sample(dict(kind="bisect-exhaustive", arrays=len(cases), queries_per_array=len(queries), example=dict(arr=cases[200][0], q="5/2")))
    # 2. random float arrays, bit exact
    rng = ctx.rng
    fcases = []
    for i in range(150 if ctx.quick() else 2500):
        n = rng.choice([1, 2, 3, 5, 8, 13, 40, 200])
        mag = rng.choice([1e-300, 1e-6, 1.0, 1e6, 1e300])
        vals = sorted(set(rng.uniform(-mag, mag) for _ in range(n)))
        qs = [rng.uniform(-1.5 * mag, 1.5 * mag) for _ in range(4)]
        x = rng.choice(vals)
        qs += [x, float(np.nextafter(x, np.inf)), float(np.nextafter(x, -np.inf)), vals[0], vals[-1]]
        fcases.append((vals, qs))
    bisect_block(ctx, fcases, "f")
    ctx.sample(dict(kind="bisect-float", arr=fcases[0][0][:5], q=fcases[0][1][:3]))
    # 3. Hermite
    hermite_block(ctx, 300 if ctx.quick() else 5000)


def replay(rep):
    v = rep["violation"]["input"]
    if v["kind"] == "bisect":
        arr, qq = v["arr"], v["q"]
        want = spec_index(arr, qq)
        return impl_scalar(np.asarray(arr), np.float64(qq)) == want and impl_vec(arr, [qq])[0] == want
    return True
