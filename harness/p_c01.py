"""C01 - every integrator attains its declared order of accuracy."""
import math
from fractions import Fraction as Fr
import impl, numerics
from impl import np, I, DS, q, qlist

ID = "C01"
LEAN_TARGETS = ["DVP.Properties.C01"]
PROPERTY_FILES = ["DVP/Properties/C01.lean"]
LEAN_TARGETS_THOROUGH = ["DVP.Properties.C01Deep"]
PROPERTY_FILES_THOROUGH = ["DVP/Properties/C01Deep.lean"]
ALLOW_NATIVE = ("DVP.C01.order_RK108Solver._native", "DVP.C01.order_RK1412Solver_partial._native",
                "DVP.C01.order_RadauIIA19_partial._native", "DVP.C01Deep.")
TOL = 10 ** 12
RULE = ("every shipped method (29 Runge-Kutta tables, 3 splitting tables): generated table vs the arrays the instantiated "
        "integrator holds (exact), attained order from the compiled rooted-tree checker vs declared order; Richardson wrappers "
        "of Euler/Midpoint/RK4 with 2..5 levels on seeded polynomial problems: returned increment vs the table model. "
        "non-trivial = method with >= 2 stages or Richardson case with >= 3 levels; distinct by (method) / (basis, levels, input)")
ASSUMPTIONS = ["Butcher's theorem / P-series theory / Gragg's error expansion are cited, not formalised",
               "tolerance of every order condition 1e-12 on the exact values of the float64 coefficients"]
TRUSTED_EXTRA = ["native_decide (compiled evaluation, Lean compiler trusted) for RK108Solver, RK1412Solver, RadauIIA19 only"]


def exact_ints(arr, K):
    out = []
    for x in np.asarray(arr, dtype=np.float64).flatten():
        v = Fr(float(x)) * (1 << K)
        if v.denominator != 1:
            return None
        out.append(int(v))
    return out


def methods():
    return [(c, "explicit") for c in I.explicit_methods()] + [(c, "implicit") for c in I.implicit_methods()]


def is_split(cls):
    return not hasattr(cls, "tableau_final") or cls.tableau_final is None


def pmax_for(ctx, name, order):
    if name == "RK1412Solver":
        return 12 if ctx.quick() else 14
    if name == "RadauIIA19":
        return 10 if ctx.quick() else 12
    return order


def run(ctx):
    ms = methods()
    lines = []
    for cls, kind in ms:
        name = cls.__name__
        order = int(cls.__order__)
        if is_split(cls):
            lines.append("tab split %s" % name)
            lines.append("order split %s alt %d %d" % (name, order, TOL))
        else:
            lines.append("tab rk %s" % name)
            lines.append("order rk %s 0 %d %d" % (name, pmax_for(ctx, name, order), TOL))
    outs = ctx.driver(lines)
    k = 0
    for cls, kind in ms:
        name = cls.__name__
        order = int(cls.__order__)
        tabline, ordline = outs[k], outs[k + 1]
        k += 2
        if tabline in ("unknown-method", "bad-op"):
            ctx.corr("tab-sync", False, dict(method=name, model=tabline))
            continue
        toks = tabline.split()
        K, mord = int(toks[0]), int(toks[1])
        inst = cls((2,), dtype=np.float64)
        ti = np.asarray(inst.tableau_intermediate)
        if is_split(cls):
            want = "%d %d %s %s %s" % (K, order, *[",".join(str(v) for v in (exact_ints(ti[:, j], K) or ["?"])) for j in range(3)])
        else:
            tf = np.asarray(inst.tableau_final)
            fmt = lambda rows: ",".join("[" + ",".join(str(v) for v in (exact_ints(r, K) or ["?"])) + "]" for r in rows)
            want = "%d %d %s %s %s" % (K, order, ",".join(str(v) for v in (exact_ints(ti[:, 0], K) or ["?"])), fmt(ti[:, 1:]), fmt(tf[:, 1:]))
        ctx.corr("tab-sync", want == tabline, dict(method=name, impl=want[:200], model=tabline[:200]))
        ot = ordline.split()
        attained = int(ot[0])
        pm = order if is_split(cls) else pmax_for(ctx, name, order)
        aux_ok = True if is_split(cls) else (ot[1] == "true" and ot[2] == "true")
        inp = dict(kind="order", method=name, declared=order, attained_by_tree_conditions=attained, checked_up_to=pm,
                   row_sums_and_estimator_ok=aux_ok, level_sizes=ot[-1])
        if attained < pm:
            worst = ctx.driver(["worst %s %s %d" % ("split" if is_split(cls) else "rk", name, attained + 1)])[0]
            inp["first_failing_level"] = attained + 1
            inp["largest_residual"] = float(Fr(worst)) if worst != "bad-op" else None
            inp["measured"] = measure(cls, order)
        # the enumeration the checker ran over: one tree per isomorphism class (OEIS A000081; for the alternating bicoloured
        # trees of a splitting scheme two per class - the colour of the root)
        A81 = [1, 1, 2, 4, 9, 20, 48, 115, 286, 719, 1842, 4766, 12486, 32973]
        sizes = [int(v) for v in ot[-1].split(",") if v]
        ctx.corr("tree-enumeration-count", sizes == [(2 if is_split(cls) else 1) * v for v in A81[:len(sizes)]], dict(method=name, level_sizes=sizes))
        ctx.oracle("declared-order", attained >= pm and aux_ok, inp, key="order:" + name,
                   what="%s declares order %d but its coefficients satisfy the order conditions only up to order %d "
                        "(largest residual at order %d: %s)" % (name, order, attained, attained + 1, inp.get("largest_residual")))
        if ti.shape[0] >= 2:
            ctx.nontrivial("m:" + name)
        ctx.count("kind:" + ("split" if is_split(cls) else kind))
        ctx.sample(dict(method=name, declared=order, attained=attained, trees_per_level=ot[-1]), limit=4)
    richardson(ctx)
    # that the code propagates with the generated coefficients (row 0, all stages, through step() and __call__) is the
    # step correspondence of C02, run here as well
    import p_c02
    p_c02.explicit_block(ctx, ctx.rng)
    p_c02.call_sequence_block(ctx, ctx.rng)


def measure(cls, order):
    try:
        h0 = numerics.h0_for(order)
        if h0 is None:
            return "order too high for a float64 measurement"
        if is_split(cls):
            qo, errs = numerics.observed_local_order(cls, h0, rhs=numerics.pendulum, t0=0.0, y0=(1.0, 0.3))
        else:
            kw = {} if cls in I.explicit_methods() else dict(rtol=1e-13, atol=1e-13)
            qo, errs = numerics.observed_local_order(cls, h0, **kw)
        return dict(observed_local_order=qo, steps_and_errors=errs)
    except Exception as e:
        return "measurement failed: %r" % (e,)


def richardson(ctx):
    rng = ctx.rng
    bases = [I.EulerSolver, I.MidpointSolver, I.RK4Solver]
    lines, cases = [], []
    ncase = 2 if ctx.quick() else 12
    for basis in bases:
        for R in (2, 3, 4, 5):
            for rep in range(ncase):
                c = [Fr(rng.randint(-8, 8), 8) for _ in range(6)]

                def rhs(t, y, c=c):
                    return np.array([float(c[0]) + float(c[1]) * y[1] + float(c[2]) * t * y[0],
                                     float(c[3]) * y[0] + float(c[4]) * y[1] * y[0] + float(c[5]) * t * t])
                cls = de.integrators.generate_richardson_integrator(basis, R)
                integ = cls((2,), dtype=np.float64, rtol=1e-3, atol=1e-3)
                y0 = np.array([rng.randint(-4, 4) / 4.0, rng.randint(-4, 4) / 4.0])
                h = rng.choice([0.25, 0.125, -0.125, 0.5])
                f = DS.DiffRHS(rhs)
                ts, (ts2, ret), diff = integ.adaptive_richardson(f, np.float64(0.5), y0.copy(), {}, np.float64(h))
                mlast = int(integ.solver_dict["num_richardson_iterations"])
                levels = int(np.shape(integ.stage_values)[0])
                ctx.oracle("richardson-levels-as-requested", levels == R, dict(kind="richardson", basis=basis.__name__, richardson_iter=R, levels=levels,
                                                                              earlier_requests="2..%d for the same basis" % (R - 1)),
                           what="generate_richardson_integrator(%s, %d) built an integrator with %d extrapolation levels" % (basis.__name__, R, levels))
                if levels < R:
                    continue
                vals = [np.array(integ.stage_values[m, 0]) for m in range(R)]
                for comp in range(2):
                    lines.append("rich %d %s" % (mlast, qlist([Fr(float(v[comp])) for v in vals[:mlast + 1]])))
                cases.append((basis.__name__, R, mlast, np.array(ret), np.array(diff), vals, h))
    outs = ctx.driver(lines)
    k = 0
    eps = 2.0 ** -52
    for (bname, R, mlast, ret, diff, vals, h) in cases:
        for comp in range(2):
            mret, mdiff = outs[k].split()
            k += 1
            scale = max(1e-300, max(abs(float(v[comp])) for v in vals)) * 64
            ok = abs(float(ret[comp]) - float(Fr(mret))) <= 64 * eps * scale and abs(float(diff[comp]) - float(Fr(mdiff))) <= 64 * eps * scale
            ctx.corr("richardson-table", ok, dict(basis=bname, levels=R, m_last=mlast, impl=[float(ret[comp]), float(diff[comp])],
                                                   model=[float(Fr(mret)), float(Fr(mdiff))]))
        if R >= 3:
            ctx.nontrivial(("r", bname, R, float(vals[0][0]), h))
        ctx.count("richardson:R%d:mlast%d" % (R, mlast))
    ctx.sample(dict(kind="richardson", basis=cases[-1][0], levels=cases[-1][1], m_last=cases[-1][2]), limit=5)
    # the order clause of the property for the wrappers, decided by the model (weights proved in Lean)
    olines = ["richorder %d %d" % (int(b.__order__), R) for b in bases for R in (2, 3, 4, 5)]
    oo = ctx.driver(olines)
    k = 0
    for b in bases:
        p = int(b.__order__)
        for R in (2, 3, 4, 5):
            eff = int(oo[k].split()[0])
            k += 1
            inp = dict(kind="richardson-order", basis=b.__name__, basis_order=p, levels=R, effective_order_of_returned_entry=eff)
            ctx.oracle("richardson-never-lower", eff >= p, inp, key="richardson-lower:%s:%d" % (b.__name__, R),
                       what="extrapolated order %d below basis order %d" % (eff, p))
            if R >= 3:
                if eff <= p and ctx.quick() is not None:
                    inp["measured"] = measure_rich(b, R, p)
                if eff > p and p <= 2:
                    # the model (proved weights) says the order is raised: it must be visible on the implementation
                    m = measure_rich(b, R, p)
                    qo = m.get("observed_local_order") if isinstance(m, dict) else None
                    ctx.oracle("richardson-measured-order", qo is not None and qo > p + 0.5, dict(inp, measured=m),
                               key="richardson-measured-order:%s:%d" % (b.__name__, R),
                               what="Richardson wrapper of %s with %d levels: measured local order %r, not above the basis order %d (the table model gives %d)" % (b.__name__, R, qo, p, eff))
                ctx.oracle("richardson-raised", eff > p, inp, key="richardson-not-raised",
                           what="Richardson wrapper of %s with %d levels has order %d, not higher than the basis order %d "
                                "(denominators 2^n-1 and returned entry T[R-2][R-2] give order max(p, R-1))" % (b.__name__, R, eff, p))


def measure_rich(basis, R, p):
    try:
        cls = de.integrators.generate_richardson_integrator(basis, R)
        h0 = numerics.h0_for(p)
        errs = []
        for h in (h0, h0 / 2):
            y0 = np.array([0.7, -0.4])
            integ = cls((2,), dtype=np.float64, rtol=1e-1, atol=1e-1)
            ts, (ts2, ret), diff = integ.adaptive_richardson(DS.DiffRHS(numerics.sys_rhs), np.float64(0.3), y0.copy(), {}, np.float64(h))
            ref = numerics.reference(numerics.sys_rhs, 0.3, y0, 0.3 + h)
            errs.append((h, float(np.max(np.abs(y0 + ret - ref)))))
        return dict(observed_local_order=math.log(errs[0][1] / errs[1][1]) / math.log(2) - 1, steps_and_errors=errs)
    except Exception as e:
        return "measurement failed: %r" % (e,)


from impl import de  # noqa: E402


def replay(rep):
    v = rep["violation"]["input"]
    if v.get("kind") == "order":
        cls = getattr(I, v["method"])
        m = measure(cls, v["declared"])
        print("measured on the implementation:", m)
        return isinstance(m, dict) and m["observed_local_order"] is not None and m["observed_local_order"] > v["declared"] - 0.5
    return True
