"""C10 - symplectic methods produce symplectic, time-reversible maps."""
import math
import impl
from impl import np, de, I, DS

ID = "C10"
LEAN_TARGETS = ["DVP.Properties.C10"]
PROPERTY_FILES = ["DVP/Properties/C10.lean"]
RULE = ("every method flagged symplectic (3 splitting schemes, Gauss-Legendre 4/6, implicit midpoint) x seeded separable Hamiltonians "
        "(harmonic, pendulum, Henon-Heiles, quartic; 1 and 2 degrees of freedom; interleaved and block variable orderings = different kick "
        "masks) x random states x steps of either sign: Jacobian of the one-step map by central differences vs M^T J M = J, a step of h "
        "followed by -h, energy over long fixed-step runs. The splitting step itself is tied to the Lean model by C02's exact correspondence "
        "(re-run here). The splitting schemes additionally with ONE integrator object reused through __call__ for every evaluation (forth, back, "
        "finite-difference neighbours). non-trivial = nonlinear Hamiltonian; distinct by (method, Hamiltonian, ordering, state, h)")
ASSUMPTIONS = ["finite-difference Jacobians: symplecticity residual judged at 1e-6 (explicit) / 1e-5 (implicit)"]


def hamiltonians():
    """(name, dof, gradT(p), gradV(q), H(q,p))"""
    return [
        ("harmonic", 1, lambda p: p, lambda q: 2.0 * q, lambda q, p: 0.5 * p @ p + q @ q),
        ("pendulum", 1, lambda p: p, lambda q: np.sin(q), lambda q, p: 0.5 * p @ p - float(np.sum(np.cos(q)))),
        ("quartic", 1, lambda p: p + 0.3 * p ** 3, lambda q: q ** 3, lambda q, p: float(np.sum(0.5 * p ** 2 + 0.075 * p ** 4 + 0.25 * q ** 4))),
        ("henon-heiles", 2, lambda p: p, lambda q: np.array([q[0] + 2 * q[0] * q[1], q[1] + q[0] ** 2 - q[1] ** 2]),
         lambda q, p: 0.5 * p @ p + 0.5 * q @ q + q[0] ** 2 * q[1] - q[1] ** 3 / 3.0),
    ]


def make_rhs(dof, gT, gV, ordering):
    """ordering 'block': y = (q, p), kick mask = second half; 'interleaved': y = (q1, p1, q2, p2)"""
    if ordering == "block":
        qi, pi = list(range(dof)), list(range(dof, 2 * dof))
    else:
        qi, pi = list(range(0, 2 * dof, 2)), list(range(1, 2 * dof, 2))

    def rhs(t, y):
        out = np.zeros_like(y)
        out[qi] = gT(y[pi])
        out[pi] = -gV(y[qi])
        return out
    mask = np.zeros(2 * dof, dtype=bool)
    mask[pi] = True
    return rhs, mask, qi, pi


def one_step(cls, rhs, mask, y, h, split):
    n = len(y)
    if split:
        # mask None = the integrator's default (second half of the variables are the momenta)
        integ = cls((n,), dtype=np.float64, staggered_mask=mask) if mask is not None else cls((n,), dtype=np.float64)
        integ.step(rhs, np.float64(0.0), y.copy(), {}, np.float64(h))
        return y + np.array(integ.dState)
    integ = cls((n,), dtype=np.float64, rtol=1e-13, atol=1e-13)
    f = DS.DiffRHS(rhs)
    integ.initial_rhs = f(np.float64(0.0), y)
    integ.step(f, np.float64(0.0), y.copy(), {}, np.float64(h))
    ok = bool(integ.solver_dict.get("newton_iteration_success", True))
    return (y + np.array(integ.dState)) if ok else None


class Reused:
    """one integrator object driven through its public __call__ for every evaluation (step, finite-difference neighbours, the way
    back): an integrator that carries anything from one call into the next shows up here and not with fresh objects"""
    def __init__(self, cls, n, mask):
        self.integ = cls((n,), dtype=np.float64, staggered_mask=mask)

    def step(self, rhs, t, y, h):
        _, (dT, dS) = self.integ(rhs, np.float64(t), y.copy(), {}, np.float64(h))
        return y + np.array(dS)


def steep_call_block(ctx, rng):
    """the implicit symplectic methods through the public __call__ on steep Hamiltonians with large steps, where the stage equations are
    hard to solve: the integrator may shorten the step or refuse it (FailedToMeetTolerances), but a step it hands back must be the method's
    step for the dTime it reports -- its stage slopes solve the stage equations, and the step of -dTime from the new state leads back"""
    def quartic(t, y):
        return np.array([y[1], -y[0] ** 3])

    def stiff2(t, y):
        return np.array([y[2], y[3], -1e4 * y[0] - y[0] * y[1] ** 2, -y[1] - y[0] ** 2 * y[1]])

    def pend(t, y):
        return np.array([y[1], -25.0 * np.sin(y[0])])

    cases = [("quartic", quartic, lambda: np.array([rng.choice([3.0, 10.0, 10.0, 30.0]) * rng.choice([1, -1]), rng.uniform(-0.5, 0.5)]), [0.5, 1.0, 0.25]),
             ("stiff-2dof", stiff2, lambda: np.array([rng.uniform(0.5, 1.5), rng.uniform(0.5, 1.5), 0.0, rng.uniform(-0.5, 0.5)]), [0.1, 0.5, 1.0]),
             ("pendulum", pend, lambda: np.array([rng.uniform(-2.5, 2.5), rng.uniform(-1, 1)]), [0.1, 0.5])]
    reps = 2 if ctx.quick() else 8
    for cls in [c for c in I.implicit_methods() if c.symplectic]:
        tab = np.array(cls.tableau_intermediate, dtype=np.float64)
        cvec, A = tab[:, 0], tab[:, 1:]
        for (name, f, draw, hs) in cases:
            for _ in range(reps):
                y = draw()
                h = rng.choice(hs) * rng.choice([1, -1])
                inp = dict(kind="steep-call", method=cls.__name__, hamiltonian=name, y=[float(v) for v in y], h=h)
                integ = cls((len(y),), dtype=np.float64)
                F = DS.DiffRHS(f)
                try:
                    _, (dT, dS) = integ(F, np.float64(0.0), y.copy(), {}, np.float64(h))
                except de.exception_types.FailedToMeetTolerances:
                    ctx.count("steep-call:refused")
                    continue
                dT, dS = float(dT), np.array(dS, dtype=np.float64)
                K = np.array(integ.stage_values, dtype=np.float64)          # (n, stages): the stage slopes of the accepted attempt
                scale = float(np.max(np.abs(K))) + 1.0
                res = 0.0
                for i in range(K.shape[1]):
                    Yi = y + dT * (K @ A[i])
                    res = max(res, float(np.max(np.abs(K[:, i] - f(cvec[i] * dT, Yi)))))
                ctx.oracle("accepted-step-solves-stage-equations", res <= 1e-6 * scale and bool(np.all(np.isfinite(dS))), dict(inp, dT=dT, residual=res, slope_scale=scale),
                           what="the step handed back by __call__ (dTime %r) has stage slopes that miss the stage equations by %.2e (slopes up to %.2e)" % (dT, res, scale))
                y1 = y + dS
                try:
                    _, (dT2, dS2) = cls((len(y),), dtype=np.float64)(DS.DiffRHS(f), np.float64(dT), y1.copy(), {}, np.float64(-dT))
                except de.exception_types.FailedToMeetTolerances:
                    ctx.count("steep-call:way-back-refused")
                    continue
                if float(dT2) != -dT:
                    ctx.count("steep-call:way-back-shortened")
                    continue
                back = float(np.max(np.abs(y1 + np.array(dS2) - y)))
                ctx.oracle("time-reversible", back <= 1e-7 * (1.0 + float(np.max(np.abs(y)))), dict(inp, mode="through-call-steep", dT=dT, defect=back),
                           what="through __call__: a step of %r followed by a step of %r misses the start by %.2e" % (dT, -dT, back))
                ctx.count("steep-call:accepted:" + name)


def run(ctx):
    rng = ctx.rng
    steep_call_block(ctx, rng)
    methods = [(I.SymplecticEulerSolver, True), (I.BABs9o7HSolver, True), (I.ABAs5o6HSolver, True),
               (I.GaussLegendre4, False), (I.GaussLegendre6, False), (I.ImplicitMidpoint, False)]
    flagged = sorted(c.__name__ for c in I.explicit_methods() + I.implicit_methods() if c.symplectic)
    ctx.corr("symplectic-flag-registry", flagged == sorted(c.__name__ for c, _ in methods), dict(flagged=flagged))
    # every method the LIBRARY flags symplectic is put to the test, whatever the list above says
    for c in I.explicit_methods() + I.implicit_methods():
        if c.symplectic and c not in [m for m, _ in methods]:
            methods.append((c, issubclass(c, de.integrators.integrator_types.ExplicitSymplecticIntegrator)))
    reps = 2 if ctx.quick() else 10
    ctx_reused = {}
    for cls, split in methods:
        for (hname, dof, gT, gV, H) in hamiltonians():
            for ordering in (["block"] if dof == 1 else ["block", "interleaved"]):
                rhs, mask, qi, pi = make_rhs(dof, gT, gV, ordering)
                n = 2 * dof
                Jm = np.zeros((n, n))
                for a, b in zip(qi, pi):
                    Jm[a, b] = 1.0
                    Jm[b, a] = -1.0
                for _ in range(reps):
                    y = np.array([rng.uniform(-0.6, 0.6) for _ in range(n)])
                    h = rng.choice([0.05, 0.1, 0.2]) * rng.choice([1, -1])
                    inp = dict(kind="symplectic", method=cls.__name__, hamiltonian=hname, ordering=ordering, y=[float(v) for v in y], h=h)
                    y1 = one_step(cls, rhs, mask, y, h, split)
                    if y1 is None:
                        ctx.count("newton-not-converged")
                        continue
                    # Jacobian of the step map by central differences
                    M = np.zeros((n, n))
                    eps = 1e-5
                    bad = False
                    for k in range(n):
                        e = np.zeros(n)
                        e[k] = eps
                        yp, ym = one_step(cls, rhs, mask, y + e, h, split), one_step(cls, rhs, mask, y - e, h, split)
                        if yp is None or ym is None:
                            bad = True
                            break
                        M[:, k] = (yp - ym) / (2 * eps)
                    if not bad:
                        resid = float(np.max(np.abs(M.T @ Jm @ M - Jm)))
                        ctx.oracle("step-map-symplectic", resid <= (1e-6 if split else 1e-5), dict(inp, residual=resid),
                                   what="max |M^T J M - J| = %.2e for the one-step map" % resid)
                    # reversibility
                    y2 = one_step(cls, rhs, mask, y1, -h, split)
                    if y2 is not None:
                        back = float(np.max(np.abs(y2 - y)))
                        ctx.oracle("time-reversible", back <= (1e-12 if split else 1e-9), dict(inp, defect=back),
                                   what="a step of h followed by a step of -h misses the start by %.2e" % back)
                    if split and ordering == "block":
                        # the default kick mask (no mask given) is the block ordering: same step as with the explicit mask
                        yd = one_step(cls, rhs, None, y, h, True)
                        ctx.oracle("default-mask-is-block-ordering", float(np.max(np.abs(yd - y1))) <= 1e-15 * (1 + float(np.max(np.abs(y1)))),
                                   dict(inp, mode="default-mask", difference=float(np.max(np.abs(yd - y1)))),
                                   what="the step with the default kick mask differs from the step with the explicit block mask by %.2e (n = %d variables)" % (float(np.max(np.abs(yd - y1))), n))
                        ctx.count("mode:default-mask:n=%d" % n)
                    if split:
                        # the same checks with ONE integrator object through __call__: forth from t=0 and back from t=h, state after state
                        R = ctx_reused.setdefault((cls.__name__, hname, ordering), Reused(cls, n, mask))
                        z1 = R.step(rhs, 0.0, y, h)
                        z2 = R.step(rhs, h, z1, -h)
                        ctx.oracle("time-reversible", float(np.max(np.abs(z2 - y))) <= 1e-12, dict(inp, mode="reused-integrator", defect=float(np.max(np.abs(z2 - y)))),
                                   what="reused integrator: a step of h followed by a step of -h misses the start by %.2e" % float(np.max(np.abs(z2 - y))))
                        ctx.oracle("step-independent-of-history", float(np.max(np.abs(z1 - y1))) <= 1e-13, dict(inp, mode="reused-integrator", defect=float(np.max(np.abs(z1 - y1)))),
                                   what="the step of a reused integrator differs from the step of a fresh one by %.2e" % float(np.max(np.abs(z1 - y1))))
                        M2 = np.zeros((n, n))
                        for k in range(n):
                            e = np.zeros(n)
                            e[k] = eps
                            yp = R.step(rhs, 0.0, y + e, h)
                            R.step(rhs, h, yp, -h)
                            ym = R.step(rhs, 0.0, y - e, h)
                            R.step(rhs, h, ym, -h)
                            M2[:, k] = (yp - ym) / (2 * eps)
                        resid2 = float(np.max(np.abs(M2.T @ Jm @ M2 - Jm)))
                        ctx.oracle("step-map-symplectic", resid2 <= 1e-6, dict(inp, mode="reused-integrator", residual=resid2),
                                   what="reused integrator: max |M^T J M - J| = %.2e for the one-step map" % resid2)
                        ctx.count("mode:reused-integrator")
                    if hname != "harmonic":
                        ctx.nontrivial((cls.__name__, hname, ordering, tuple(float(v) for v in y), h))
                    ctx.count("method:" + cls.__name__)
                    ctx.count("hamiltonian:" + hname + ":" + ordering)
    # energy over long fixed-step runs of the splitting schemes (through OdeSystem, so that the kick mask travels the public route)
    for cls in [I.SymplecticEulerSolver, I.BABs9o7HSolver, I.ABAs5o6HSolver]:
        for (hname, dof, gT, gV, H) in hamiltonians()[1:]:
            ordering = "interleaved" if dof == 2 else "block"
            rhs, mask, qi, pi = make_rhs(dof, gT, gV, ordering)
            y0 = np.array([0.3, 0.2] if dof == 1 else [0.12, 0.1, 0.12, -0.1])
            nsteps = 1500 if ctx.quick() else 12000
            ode = de.OdeSystem(rhs, y0=y0, t=(0.0, nsteps * 0.05), dt=0.05)
            ode.set_method(cls, staggered_mask=mask)
            try:
                ode.integrate()
            except Exception as e:
                ctx.oracle("long-run", False, dict(kind="energy", method=cls.__name__, hamiltonian=hname), what="long run raised %r" % (e,))
                continue
            E = np.array([H(y[qi], y[pi]) for y in ode.y])
            dev = np.abs(E - E[0])
            half = len(dev) // 2
            first, second = float(np.max(dev[:half])), float(np.max(dev[half:]))
            ctx.oracle("no-secular-energy-drift", second <= 3 * first + 1e-12, dict(kind="energy", method=cls.__name__, hamiltonian=hname, ordering=ordering, first_half=first, second_half=second),
                       what="energy error grows: max %.2e in the first half, %.2e in the second half of the run" % (first, second))
            ctx.count("energy:" + cls.__name__)
    # Richardson wrappers generated on demand carry the `symplectic` flag of their basis: every class the library FLAGS symplectic is put to
    # the test (the pendulum, one step through __call__, finite-difference Jacobian of the step map)
    for basis in [I.SymplecticEulerSolver, I.ABAs5o6HSolver]:
        wcls = de.integrators.generate_richardson_integrator(basis, 3)
        if not getattr(wcls, "symplectic", False):
            continue

        def step_w(yv, wcls=wcls):
            integ = wcls((2,), dtype=np.float64, rtol=1e-10, atol=1e-10)
            _, (dT, dS) = integ(lambda t, y: np.array([y[1], -np.sin(y[0])]), np.float64(0.0), yv.copy(), {}, np.float64(0.25))
            return yv + np.array(dS), float(dT)
        try:
            y = np.array([0.8, 0.3])
            y1, dT0 = step_w(y)
            M = np.zeros((2, 2))
            eps_ = 1e-6
            same_dt = True
            for j in range(2):
                e = np.zeros(2); e[j] = eps_
                yp, d1 = step_w(y + e); ym, d2 = step_w(y - e)
                same_dt = same_dt and d1 == dT0 and d2 == dT0
                M[:, j] = (yp - ym) / (2 * eps_)
            Jm = np.array([[0.0, 1.0], [-1.0, 0.0]])
            resid = float(np.max(np.abs(M.T @ Jm @ M - Jm)))
            if same_dt:
                ctx.oracle("step-map-symplectic", resid <= 1e-7, dict(kind="flagged-wrapper", method="Richardson(%s,3)" % basis.__name__, residual=resid, h=0.25),
                           key="richardson-wrapper-flagged-symplectic:" + basis.__name__, what="Richardson(%s, 3) is flagged symplectic but max |M^T J M - J| = %.2e for its one-step map" % (basis.__name__, resid))
            ctx.count("flagged-wrapper:" + basis.__name__)
        except Exception as e:
            ctx.count("flagged-wrapper:exception:" + type(e).__name__)
    # the same kick mask spelled as booleans, as 0/1 integers (list and array) and given through set_kick_vars after the method was chosen:
    # one and the same map
    for cls in [I.SymplecticEulerSolver, I.BABs9o7HSolver, I.ABAs5o6HSolver]:
        for (hname, dof, gT, gV, H) in hamiltonians()[1:3]:
            for ordering in ("block", "interleaved"):
                rhs, mask, qi, pi = make_rhs(dof, gT, gV, ordering)
                y0 = np.array([0.3, 0.2] if dof == 1 else ([0.12, 0.1, 0.12, -0.1] if ordering == "interleaved" else [0.12, 0.12, 0.1, -0.1]))
                ends = {}
                for spelling, mk in [("bool-array", np.array(mask, dtype=bool)), ("int-list", [int(bool(m)) for m in mask]), ("int-array", np.array(mask, dtype=np.int64)),
                                     ("int32-array", np.array(mask, dtype=np.int32))]:
                    for route in ("set_method", "set_kick_vars-after"):
                        ode = de.OdeSystem(rhs, y0=y0.copy(), t=(0.0, 1.0), dt=0.1)
                        try:
                            if route == "set_method":
                                ode.set_method(cls, staggered_mask=mk)
                            else:
                                ode.set_method(cls)
                                ode.set_kick_vars(mk)
                            ode.integrate()
                            ends[(spelling, route)] = np.array(ode.y[-1])
                        except Exception as e:
                            ctx.oracle("mask-spelling-runs", False, dict(kind="mask-spelling", method=cls.__name__, spelling=spelling, route=route), what="raised %r" % (e,))
                ref = ends.get(("bool-array", "set_method"))
                for k, v in ends.items():
                    dev = float(np.max(np.abs(v - ref))) if ref is not None else float("inf")
                    ctx.oracle("kick-mask-spelling-irrelevant", dev <= 1e-13, dict(kind="mask-spelling", method=cls.__name__, hamiltonian=hname, ordering=ordering, spelling=k[0], route=k[1], deviation=dev),
                               what="the run with the mask given as %s through %s ends %.2e away from the run with the boolean mask" % (k[0], k[1], dev))
                ctx.count("mask-spelling:" + cls.__name__)
    # theorem kdk_modified_energy_invariant on the implementation: the shipped kick-drift-kick scheme conserves the modified energy
    # p^2 + (1 - h^2/4) q^2 of the harmonic oscillator exactly (to rounding), whatever the step and however long the run
    for h in (0.05, 0.5, 1.5, -0.25):
        n = 400 if ctx.quick() else 4000
        ode = de.OdeSystem(lambda t, y: np.array([y[1], -y[0]]), y0=np.array([0.3, 0.7]), t=(0.0, n * h), dt=h)
        ode.set_method(I.SymplecticEulerSolver, staggered_mask=np.array([False, True]))
        try:
            ode.integrate()
            ys = np.array(ode.y)[:-1]          # the last step may be a clipped one (another h)
            Hm = ys[:, 1] ** 2 + (1 - h * h / 4) * ys[:, 0] ** 2
            dev = float(np.max(np.abs(Hm - Hm[0])))
            E = ys[:, 1] ** 2 + ys[:, 0] ** 2
            ctx.oracle("modified-energy-conserved", dev <= 1e-12 * n, dict(kind="modified-energy", method="SymplecticEulerSolver", h=h, steps=n, deviation=dev),
                       what="the modified energy of the harmonic oscillator moved by %.2e over %d steps of %g" % (dev, n, h))
            ctx.oracle("energy-bounded-for-all-times", float(np.max(E)) <= E[0] / (1 - h * h / 4) * (1 + 1e-9), dict(kind="modified-energy", h=h, steps=n, max_energy=float(np.max(E)), bound=float(E[0] / (1 - h * h / 4))),
                       what="energy %.6g exceeds the proved bound E0 / (1 - h^2/4) = %.6g" % (float(np.max(E)), float(E[0] / (1 - h * h / 4))))
        except Exception as e:
            ctx.oracle("long-run", False, dict(kind="modified-energy", h=h), what="raised %r" % (e,))
        ctx.count("modified-energy")
    ctx.sample(dict(kind="symplectic", methods=[c.__name__ for c, _ in methods], hamiltonians=[h[0] for h in hamiltonians()]))
    # the splitting step vs the Lean model (shared with C02)
    import p_c02
    p_c02.split_block(ctx, rng)
    p_c02.split_call_sequence_block(ctx, rng)


def replay(rep):
    return False
