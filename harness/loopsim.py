"""Scenario runner shared by the OdeSystem checks (C03, C04, C12, C13, C20): drives the real
OdeSystem through an operation sequence while recording every integrator call, and replays the same
sequence through the Lean model `DV.Loop` (bit-exact on float64 scalars)."""
import math
import impl
from impl import np, de, I, DS, fbits, flist

EPS = 4 * 2.0 ** -52
TOLEPS = 32 * 2.0 ** -52


class Fault(Exception):
    pass


class BudgetExceeded(BaseException):
    """the scenario needs more integrator calls than the harness is willing to run (not a finding)"""


BUDGET = 12000          # integrator calls per scenario (explicit methods)
BUDGET_IMPLICIT = 2500  # ... for implicit methods (a call costs a nonlinear solve)


def make_recorder(base, log):
    class Rec(base):
        owner = None
        fault_at = None        # raise at the k-th integrator call (0-based, counted over the whole scenario)
        fault_kind = "raise"
        ncalls = 0

        def __call__(self, rhs, initial_time, initial_state, constants, timestep):
            cls = type(self)
            k = cls.ncalls
            cls.ncalls += 1
            if k > (BUDGET_IMPLICIT if getattr(self, 'is_implicit', False) else BUDGET):
                raise BudgetExceeded()
            ent = dict(t=float(initial_time), h=float(timestep), cap=len(cls.owner._OdeSystem__t) if cls.owner is not None else None,
                       dt_attr=float(cls.owner.dt) if cls.owner is not None else None, h_dtype=str(getattr(timestep, "dtype", type(timestep).__name__)))
            if cls.fault_at is not None and k == cls.fault_at:
                ent["exc"] = cls.fault_kind
                log.append(ent)
                if cls.fault_kind == "interrupt":
                    raise KeyboardInterrupt()
                raise Fault("injected fault at integrator call %d" % k)
            try:
                res = super().__call__(rhs, initial_time, initial_state, constants, timestep)
            except BaseException as e:
                ent["exc"] = "raise"
                ent["exc_repr"] = repr(e)[:200]
                log.append(ent)
                raise
            ent["new_dt"] = float(res[0])
            ent["dT"] = float(res[1][0])
            log.append(ent)
            return res
    Rec.__name__ = "Rec_" + base.__name__
    return Rec


def status_code(ode):
    st = ode._OdeSystem__int_status
    if isinstance(st, KeyboardInterrupt):
        return 4
    if isinstance(st, Exception):
        return 3
    return int(st)


class Scenario:
    """ops: ('new', t0, tf, dt) | ('int', target|None, dict(cb_dt={iter: v}, cb_raise=iter|None, fault=call|None, fault_kind))
            | ('setdt', v) | ('settf', v) | ('reset',)"""

    def __init__(self, method, ops, rhs=None, y0=None, dtype=np.float64, dense=False, rtol=None, atol=None):
        self.method, self.ops, self.dtype, self.dense = method, ops, dtype, dense
        self.rhs = rhs or (lambda t, y: -0.5 * y + np.cos(t))
        self.y0 = np.array([1.0, -0.25], dtype=dtype) if y0 is None else y0
        self.rtol, self.atol = rtol, atol
        self.records = []       # per op: dict(op=..., log=[...], t=[...], dt=..., status=..., cap=..., exc=...)

    def run_impl(self):
        ode = None
        T = self.dtype
        for op in self.ops:
            rec = dict(op=op, log=[], exc=None)
            if op[0] == "new":
                _, t0, tf, dt = op
                log = []
                self.Rec = make_recorder(self.method, log)
                self._log = log
                kw = {}
                if self.rtol is not None:
                    kw = dict(rtol=self.rtol, atol=self.atol)
                ode = de.OdeSystem(self.rhs, y0=self.y0.copy(), t=(T(t0), T(tf)), dt=T(dt), dense_output=self.dense, **kw)
                ode.set_method(self.Rec)
                self.Rec.owner = ode
                self.ode = ode
            elif op[0] == "int":
                _, target, opts = op
                start = len(self._log)
                base_calls = self.Rec.ncalls
                it_no = [0]
                cbs = []
                cb_log = {}
                if opts.get("cb_dt") or opts.get("cb_raise") is not None:
                    def cb(o, opts=opts, it_no=it_no, cb_log=cb_log):
                        i = it_no[0]
                        it_no[0] += 1
                        if opts.get("cb_dt") and i in opts["cb_dt"]:
                            o.dt = T(opts["cb_dt"][i])
                            cb_log[i] = float(opts["cb_dt"][i])
                        if opts.get("cb_raise") is not None and i == opts["cb_raise"]:
                            raise Fault("callback fault at iteration %d" % i)
                    cbs.append(cb)
                self.Rec.fault_at = None if opts.get("fault") is None else base_calls + opts["fault"]
                self.Rec.fault_kind = opts.get("fault_kind", "raise")
                try:
                    if target is None:
                        ode.integrate(callback=cbs)
                    else:
                        ode.integrate(T(target), callback=cbs)
                except de.exception_types.FailedIntegration as e:
                    rec["exc"] = "FailedIntegration"
                    rec["cause"] = type(e.__cause__).__name__ if e.__cause__ is not None else None
                except KeyboardInterrupt:
                    rec["exc"] = "KeyboardInterrupt"
                except Exception as e:  # anything else escaping is itself a finding for C12
                    rec["exc"] = "other:" + type(e).__name__
                    rec["exc_repr"] = repr(e)[:200]
                self.Rec.fault_at = None
                rec["log"] = self._log[start:]
            elif op[0] == "setdt":
                ode.dt = T(op[1])
            elif op[0] == "settf":
                try:
                    ode.tf = T(op[1])
                except ValueError:
                    rec["exc"] = "ValueError"
            elif op[0] == "reset":
                ode.reset()
            rec["t"] = [float(x) for x in ode.t]
            rec["t_native"] = [x for x in np.asarray(ode.t)]      # in the precision of the run (float(x) is lossy for longdouble)
            rec["ylen"] = len(ode.y)
            rec["finite"] = bool(np.all(np.isfinite(ode.y)) and np.all(np.isfinite(ode.t)))
            rec["dtype_ok"] = (ode.y.dtype == np.dtype(T)) and (ode.t.dtype == np.dtype(T))
            rec["dt"] = float(ode.dt)
            rec["status"] = status_code(ode)
            rec["cap"] = len(ode._OdeSystem__t)
            rec["nfev"], rec["njev"] = ode.nfev, ode.njev
            rec["y_last"] = np.array(ode.y[-1])
            rec["y_first"] = np.array(ode.y[0])
            rec["success"] = bool(ode.success)
            rec["sol_len"] = len(ode._OdeSystem__sol)
            rec["events"] = len(ode.events)
            self.records.append(rec)
        return self.records

    def model_line(self):
        """the same scenario as a driver line; iteration data come from the recorded integrator returns"""
        parts = ["loopf %s %s" % (fbits(EPS), fbits(TOLEPS))]
        for op, rec in zip(self.ops, self.records):
            if op[0] == "new":
                parts.append("new %s %s %s" % (fbits(op[1]), fbits(op[2]), fbits(op[3])))
            elif op[0] == "int":
                _, target, opts = op
                tgt = target if target is not None else self._tf_at(op)
                its = []
                for i, ent in enumerate(rec["log"]):
                    if ent.get("exc") == "interrupt":
                        its.append("k")
                    elif ent.get("exc"):
                        its.append("x")
                    else:
                        s = "o:%s:%s" % (fbits(ent["new_dt"]), fbits(ent["dT"]))
                        if opts.get("cb_dt") and i in opts["cb_dt"]:
                            s += ":c" + fbits(opts["cb_dt"][i])
                        if opts.get("cb_raise") is not None and i == opts["cb_raise"]:
                            s += ":r"
                        its.append(s)
                parts.append("int %s %s" % (fbits(tgt), ";".join(its)))
            elif op[0] == "setdt":
                parts.append("setdt %s" % fbits(op[1]))
            elif op[0] == "settf":
                parts.append("settf %s" % fbits(op[1]))
            elif op[0] == "reset":
                parts.append("reset")
        return " | ".join(parts)

    def _tf_at(self, upto_op):
        tf = None
        for op in self.ops:
            if op[0] == "new":
                tf = op[2]
            if op[0] == "settf" and not self._settf_failed(op):
                tf = op[1]
            if op is upto_op:
                break
        return tf

    def _settf_failed(self, op):
        for o, r in zip(self.ops, self.records):
            if o is op:
                return r.get("exc") == "ValueError"
        return False

    def compare(self, ctx, model_out, tag):
        """compare the model's dump with the implementation, op by op"""
        outs = model_out.split(" | ")
        if len(outs) != len(self.ops):
            ctx.corr(tag + ":shape", False, dict(model=model_out[:300], ops=str(self.ops)[:300]))
            return
        for op, rec, o in zip(self.ops, self.records, outs):
            if o == "value-error":
                ctx.corr(tag + ":settf", rec.get("exc") == "ValueError", dict(op=str(op), impl=rec.get("exc")))
                continue
            toks = o.split()
            d = {toks[i]: toks[i + 1] for i in range(0, len(toks) - 1, 2)}
            want_t = flist(rec["t"])
            ok_t = d.get("T") == want_t
            ok_dt = d.get("D") == fbits(rec["dt"])
            ok_s = d.get("S") == str(rec["status"])
            ok_c = d.get("C") == str(rec["cap"])
            det = dict(method=self.method.__name__, op=str(op)[:200], ops=str(self.ops)[:400],
                       impl=dict(t=rec["t"][:6] + rec["t"][-3:], n=len(rec["t"]), dt=rec["dt"], status=rec["status"], cap=rec["cap"], exc=rec.get("exc")),
                       model=o[:400])
            ctx.corr(tag + ":times", ok_t, det)
            ctx.corr(tag + ":dt", ok_dt, det)
            ctx.corr(tag + ":status", ok_s, det)
            ctx.corr(tag + ":capacity", ok_c, det)
            if op[0] == "int":
                rq = [] if d.get("R", "-") == "-" else d["R"].split(",")
                want = ["%s:%s" % (fbits(e["h"]), e["cap"]) for e in rec["log"]]
                got = [":".join([r.split(":")[0], r.split(":")[2]]) for r in rq]
                ctx.corr(tag + ":requests", got == want, dict(det, impl_requests=[(e["h"], e["cap"]) for e in rec["log"]][:8], model_requests=rq[:8]))
                ctx.corr(tag + ":consumed", d.get("U") == "0", det)
                crashed = d.get("X") == "true"
                faulted = any(e.get("exc") for e in rec["log"]) or (op[2].get("cb_raise") is not None and rec.get("exc"))
                if not crashed and not faulted:
                    ctx.corr(tag + ":guard-exit", d.get("G") == "true", det)
