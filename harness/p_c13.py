"""C13 - results do not depend on call history; reset restores the initial state."""
import copy
import impl, loopsim, p_c03
from impl import np, de, I

ID = "C13"
LEAN_TARGETS = ["DVP.Properties.C13"]
PROPERTY_FILES = ["DVP/Properties/C13.lean"]
RULE = ("seeded operation sequences drawn from {integrate(), integrate(t), set dt/rtol/atol/method/tf, set_kick_vars, integrate with events, "
        "faulting integrate, reset} on a real OdeSystem; after the sequence: reset() and re-run, compared bit for bit with a freshly "
        "constructed system with the same settings; the same sequence run twice (determinism); split runs vs single runs; the caller's y0 "
        "and constants compared with copies taken before. The time-grid part of every sequence is replayed through the Lean model. "
        "non-trivial = sequence with >= 3 operations of >= 2 kinds; distinct by the op list")
ASSUMPTIONS = ["bit-for-bit comparisons use numpy.array_equal on t and y"]


def rhs(t, y, k=1.0):
    # non-autonomous, with a time-dependent Jacobian (so that a Jacobian cached at another time matters)
    return np.array([y[1], -k * np.sin(y[0]) * (1.0 + 0.5 * np.sin(3.0 * t)) - 0.05 * y[1]])


def ev_cross(t, y, **kw):
    return y[0] - 0.35
ev_cross.is_terminal = True


def ev_nonterm(t, y, **kw):
    return y[1] + 0.2


def ev_early_up(t, y, **kw):
    return y[0] - 1.003          # crossed inside the first step of a forward run from y0 = (1, 0.25)


def ev_early_down(t, y, **kw):
    return y[0] - 0.997          # ... of a backward run


class Boom(Exception):
    pass


class NotTerminating(BaseException):
    """a call of the history does not come to an end (reported as a violation, never as a hanging check)"""


def gen(rng):
    t0, tf = rng.choice([(0.0, 2.0), (1.0, 3.5), (-1.0, 1.0), (2.0, 0.0), (0.5, -1.5)])
    dt = abs(tf - t0) / rng.choice([8, 13, 20]) * rng.choice([1, -1])
    method0 = rng.choice(["RK4Solver", "RK45CKSolver", "DOPRI45", "MidpointSolver", "SymplecticEulerSolver", "BackwardEuler", "RadauIIA5", "LobattoIIIC4"])
    ops = []
    for _ in range(rng.randint(2, 6)):
        r = rng.random()
        if r < 0.25:
            ops.append(("integrate", None))
        elif r < 0.45:
            ops.append(("integrate", t0 + (tf - t0) * rng.choice([0.25, 0.5, 0.8, 1.3, -0.4])))
        elif r < 0.53:
            ops.append(("dt", dt * rng.choice([0.5, 2.0, -1.0])))
        elif r < 0.60:
            ops.append(("rtol", rng.choice([1e-4, 1e-7])))
        elif r < 0.66:
            ops.append(("atol", rng.choice([1e-6, 1e-9])))
        elif r < 0.74:
            ops.append(("method", rng.choice(["RK4Solver", "RK45CKSolver", "HeunsSolver", "SymplecticEulerSolver", "ABAs5o6HSolver", "BackwardEuler", "RadauIIA5"])))
        elif r < 0.78:
            ops.append(("tf", tf + (tf - t0) * 0.5))
        elif r < 0.82:
            ops.append(("kick", rng.choice([[False, True], [True, False]])))
        elif r < 0.90:
            ops.append(("events", rng.choice(["terminal", "nonterminal"])))
        elif r < 0.96:
            ops.append(("fault", rng.randint(1, 30)))
        else:
            ops.append(("reset",))
    return dict(t0=t0, tf=tf, dt=dt, method=method0, dense=rng.random() < 0.5, ops=ops)


def fresh(sc, y0, consts):
    o = de.OdeSystem(rhs, y0=y0, t=(sc["t0"], sc["tf"]), dt=sc["dt"], dense_output=sc["dense"], rtol=1e-6, atol=1e-8, constants=consts)
    o.set_method(getattr(I, sc["method"]))
    return o


def apply_ops(o, sc, counter):
    """returns the settings in force at the end (for the fresh comparison system)"""
    settings = dict(method=sc["method"], rtol=1e-6, atol=1e-8, tf=sc["tf"], kick=None)
    nsteps = [0]

    def budget(o_):
        # a history of a few calls over spans of a few units that records more than 200 000 steps is not terminating
        nsteps[0] += 1
        if nsteps[0] > 200000:
            raise NotTerminating()
    for op in sc["ops"]:
        try:
            if op[0] == "integrate":
                o.integrate(callback=budget) if op[1] is None else o.integrate(op[1], callback=budget)
            elif op[0] == "dt":
                o.dt = op[1]
            elif op[0] == "rtol":
                o.rtol = op[1]; settings["rtol"] = op[1]
            elif op[0] == "atol":
                o.atol = op[1]; settings["atol"] = op[1]
            elif op[0] == "method":
                # the kick mask travels with the integrator: it survives a change of method only if the method that is replaced was a
                # splitting scheme (set_method takes the mask from the current integrator)
                if not getattr(I, settings["method"]).symplectic or not hasattr(o.integrator, "staggered_mask"):
                    settings["kick"] = None
                o.set_method(getattr(I, op[1])); settings["method"] = op[1]
            elif op[0] == "tf":
                o.tf = op[1]; settings["tf"] = op[1]
            elif op[0] == "kick":
                # documented: "Does nothing if integrator is not symplectic"
                o.set_kick_vars(np.array(op[1]))
                if hasattr(o.integrator, "staggered_mask"):
                    settings["kick"] = op[1]
            elif op[0] == "events":
                o.integrate(events=[ev_cross] if op[1] == "terminal" else [ev_nonterm])
            elif op[0] == "fault":
                counter["fault_at"] = counter["n"] + op[1]
                try:
                    o.integrate()
                finally:
                    counter["fault_at"] = None
            elif op[0] == "reset":
                o.reset()
        except (de.exception_types.FailedIntegration, ValueError):
            pass
    return settings


def run(ctx):
    rng = ctx.rng
    n = 60 if ctx.quick() else 600
    for i in range(n):
        sc = gen(rng)
        inp = dict(kind="history", scenario=sc)
        counter = dict(n=0, fault_at=None)

        def frhs(t, y, k=1.0, counter=counter):
            counter["n"] += 1
            if counter["fault_at"] is not None and counter["n"] >= counter["fault_at"]:
                raise Boom("rhs fault")
            return rhs(t, y, k)
        y0 = np.array([1.0, 0.25])
        consts = dict(k=1.5)
        y0_copy, consts_copy = y0.copy(), copy.deepcopy(consts)
        try:
            o = de.OdeSystem(frhs, y0=y0, t=(sc["t0"], sc["tf"]), dt=sc["dt"], dense_output=sc["dense"], rtol=1e-6, atol=1e-8, constants=consts)
            o.set_method(getattr(I, sc["method"]))
            settings = apply_ops(o, sc, counter)
        except loopsim.BudgetExceeded:
            continue
        except NotTerminating:
            ctx.oracle("history-terminates", False, dict(inp, steps=len(o.t), t=float(o.t[-1]), dt=float(o.dt)),
                       what="a call of the history recorded more than 200000 steps (now at t=%r with dt=%r)" % (float(o.t[-1]), float(o.dt)))
            continue
        except Exception as e:
            ctx.oracle("ops-run", False, inp, what="operation sequence raised %r" % (e,))
            continue
        ctx.oracle("caller-data-untouched", np.array_equal(y0, y0_copy) and consts == consts_copy, inp, what="the caller's y0 or constants were modified")
        # reset, then compare with a fresh system carrying the final settings
        try:
            o.reset()
            ok_reset = (len(o.t) == 1 and float(o.t[0]) == sc["t0"] and np.array_equal(o.y[0], y0_copy) and len(o.events) == 0
                        and o.nfev == 0 and o.njev == 0 and loopsim.status_code(o) == 0 and (o.sol is None or len(o.sol) == 0))
            ctx.oracle("reset-state", bool(ok_reset), inp, what="after reset: t=%s events=%d nfev=%d njev=%d status=%r" % (o.t, len(o.events), o.nfev, o.njev, o.integration_status))
            # every other scenario re-runs with (non-terminal) events, one of them crossed inside the first step
            evs = None if i % 2 == 0 else [ev_nonterm, ev_early_up if settings["tf"] > sc["t0"] else ev_early_down]
            o.integrate(events=evs)
            f = de.OdeSystem(rhs, y0=y0_copy.copy(), t=(sc["t0"], settings["tf"]), dt=sc["dt"], dense_output=sc["dense"],
                             rtol=settings["rtol"], atol=settings["atol"], constants=dict(k=1.5))
            f.set_method(getattr(I, settings["method"]), staggered_mask=None if settings["kick"] is None else np.array(settings["kick"]))
            f.integrate(events=evs)
            same = np.array_equal(o.t, f.t) and np.array_equal(o.y, f.y) and o.nfev in (f.nfev, f.nfev - 1)  # the constructor's shape probe is one call
            ctx.oracle("reset-then-rerun-equals-fresh", bool(same), inp,
                       what="re-run after reset differs from a fresh system: %d vs %d samples, end %r vs %r, nfev %d vs %d" % (len(o.t), len(f.t), o.y[-1], f.y[-1], o.nfev, f.nfev))
            if evs is not None:
                eo, ef = [float(e.t) for e in o.events], [float(e.t) for e in f.events]
                ctx.oracle("reset-then-rerun-equals-fresh", eo == ef, dict(inp, events_after_reset=eo[:6], events_fresh=ef[:6]), key="reset-then-rerun-events",
                           what="events of the re-run after reset %s differ from those of a fresh system %s" % (eo[:5], ef[:5]))
                ctx.count("rerun:with-events:%d-events" % min(len(ef), 5))
        except Exception as e:
            ctx.oracle("reset-then-rerun-equals-fresh", False, inp, what="reset/re-run raised %r" % (e,))
        kinds = set(op[0] for op in sc["ops"])
        if len(sc["ops"]) >= 3 and len(kinds) >= 2:
            ctx.nontrivial(str(sc))
        for k in kinds:
            ctx.count("op:" + k)
        ctx.sample(sc, limit=3)
    # an event-tracking history in one direction, reset(), then an event-tracking run in the other direction (event detection keeps
    # step interpolants of its own even without dense output: nothing of them may survive a reset)
    for name in ["RK4Solver", "RK45CKSolver"] + ([] if ctx.quick() else ["DOPRI45", "BackwardEuler"]):
        for dense in (False, True):
            for first_dir in (-1, 1):
                t0 = rng.choice([0.0, 1.0])
                tf = t0 + 2.0 * (-first_dir)               # the configured span, used after the reset
                dt = 2.0 / rng.choice([8, 13, 20])
                early = ev_early_up if tf > t0 else ev_early_down
                inp = dict(kind="reset-after-event-history", method=name, dense=dense, t0=t0, tf=tf, dt=dt, history_target=t0 + 1.5 * first_dir)
                try:
                    def mk():
                        o = de.OdeSystem(rhs, y0=np.array([1.0, 0.25]), t=(t0, tf), dt=dt, dense_output=dense, rtol=1e-6, atol=1e-8, constants=dict(k=1.5))
                        o.set_method(getattr(I, name))
                        return o
                    o = mk()
                    o.integrate(t0 + 1.5 * first_dir, events=[ev_nonterm])
                    o.reset()
                    o.integrate(events=[early, ev_nonterm])
                    f = mk()
                    f.integrate(events=[early, ev_nonterm])
                except Exception as e:
                    ctx.oracle("reset-then-rerun-equals-fresh", False, inp, what="raised %r" % (e,))
                    continue
                eo, ef = [float(e.t) for e in o.events], [float(e.t) for e in f.events]
                ctx.oracle("reset-then-rerun-equals-fresh", np.array_equal(o.t, f.t) and np.array_equal(o.y, f.y) and eo == ef,
                           dict(inp, events_after_reset=eo[:6], events_fresh=ef[:6]), key="reset-then-rerun-events",
                           what="after an event-tracking history and reset(): events %s, a fresh system finds %s" % (eo[:5], ef[:5]))
                ctx.count("reset-after-event-history:%s:%d-events" % ("dense" if dense else "plain", min(len(ef), 5)))
                ctx.nontrivial(("reset-after-event-history", name, dense, first_dir, t0, dt))
    # reset() after a run that blew up (non-finite increments are raised by nobody): nothing of it may reach the re-run
    def blow_rhs(t, y, **kw):
        return np.array([y[1], y[0] ** 3])            # q' = p, p' = q^3: finite-time singularity
    for name in ["ABAs5o6HSolver", "SymplecticEulerSolver", "RK4Solver", "BABs9o7HSolver"] + ([] if ctx.quick() else ["MidpointSolver", "EulerSolver"]):
        for sgn in (1, -1):
            inp = dict(kind="reset-after-blow-up", method=name, direction=sgn)
            try:
                def mk():
                    o = de.OdeSystem(blow_rhs, y0=np.array([1.0, 1.0 * sgn]), t=(0.0, 0.5 * sgn), dt=0.01)
                    o.set_method(getattr(I, name))
                    return o
                o = mk()
                with np.errstate(all="ignore"):
                    o.integrate(4.0 * sgn)               # far beyond the singularity at |t| ~ 1.3
                blew = not bool(np.all(np.isfinite(o.y[-1])))
                o.reset()
                o.integrate()
                f = mk()
                f.integrate()
            except Exception as e:
                ctx.oracle("reset-then-rerun-equals-fresh", False, inp, what="raised %r" % (e,))
                continue
            same = np.array_equal(o.t, f.t) and np.array_equal(o.y, f.y, equal_nan=False)
            ctx.oracle("reset-then-rerun-equals-fresh", bool(same), dict(inp, earlier_run_blew_up=blew, end_after_reset=[float(v) for v in o.y[-1]], end_fresh=[float(v) for v in f.y[-1]]),
                       key="reset-after-blow-up", what="after a blown-up run and reset() the re-run ends at %s, a fresh system at %s" % (o.y[-1], f.y[-1]))
            ctx.count("reset-after-blow-up:%s" % ("blew-up" if blew else "finite"))
    # determinism and split runs
    for i in range(20 if ctx.quick() else 200):
        name = rng.choice(["RK4Solver", "RK45CKSolver", "DOPRI45", "ABAs5o6HSolver", "BackwardEuler"])
        t0, tf = rng.choice([(0.0, 2.0), (2.0, 0.0), (-1.0, 1.5)])
        dt = abs(tf - t0) / rng.choice([10, 16])
        cuts = sorted(rng.sample([0.25, 0.4, 0.5, 0.75, 0.9], rng.randint(1, 3)))
        inp = dict(kind="split", method=name, t0=t0, tf=tf, dt=dt, cuts=cuts)

        def mk():
            o = de.OdeSystem(rhs, y0=np.array([1.0, 0.25]), t=(t0, tf), dt=dt, rtol=1e-8, atol=1e-10, constants=dict(k=1.5))
            o.set_method(getattr(I, name))
            return o
        a, b, c = mk(), mk(), mk()
        try:
            a.integrate()
            for o in (b, c):
                for cf in cuts:
                    o.integrate(t0 + (tf - t0) * cf)
                o.integrate()
        except Exception as e:
            ctx.oracle("split-run", False, inp, what="split/single run raised %r" % (e,))
            continue
        ctx.oracle("identical-sequences-bitwise", np.array_equal(b.t, c.t) and np.array_equal(b.y, c.y), inp, what="the same call sequence gave different results on two fresh systems")
        from scipy.integrate import solve_ivp
        ex = solve_ivp(lambda t, y: rhs(t, y, 1.5), (t0, tf), [1.0, 0.25], method="DOP853", rtol=1e-12, atol=1e-13).y[:, -1]
        e_single = float(np.max(np.abs(a.y[-1] - ex)))
        e_split = float(np.max(np.abs(b.y[-1] - ex)))
        # "within tolerance": the split run is as accurate as the method allows (tolerances for adaptive methods, the
        # single run's own error for fixed-step ones)
        ctx.oracle("split-equals-single-to-tolerance", abs(float(b.t[-1]) - float(a.t[-1])) <= 1e-12 and e_split <= 5 * max(e_single, 5e-5),
                   inp, what="split run ends at %r %r, single run at %r %r" % (b.t[-1], b.y[-1], a.t[-1], a.y[-1]))
        n_before = len(b.t)
        st_before = b.integration_status
        dt_before = float(b.dt)
        b.integrate()
        ctx.oracle("at-target-noop", len(b.t) == n_before and b.integration_status == st_before and float(b.dt) == dt_before,
                   dict(inp, dt_before=dt_before, dt_after=float(b.dt), end=float(b.t[-1]), target=tf),
                   what="integrate() at the target changed the system (samples %d -> %d, dt %r -> %r)" % (n_before, len(b.t), dt_before, float(b.dt)))
        ctx.count("split:" + name)
    # the time-grid part through the Lean model
    scs, lines = [], []
    for i in range(40 if ctx.quick() else 300):
        pat, dtk, ops = p_c03.gen_ops(rng)
        ops = ops + [("reset",), ("int", None, {})]
        sc = loopsim.Scenario(getattr(I, rng.choice(["RK4Solver", "RK45CKSolver"])), ops, rtol=1e-6, atol=1e-8)
        try:
            sc.run_impl()
        except loopsim.BudgetExceeded:
            continue
        scs.append(sc)
        lines.append(sc.model_line())
    for sc, o in zip(scs, ctx.driver(lines)):
        sc.compare(ctx, o, "history-loop")

    # whole fixed-step runs with states against the Lean whole-run model DV.Run (own random stream: the scenarios above keep theirs)
    import random as _random, runsim
    runsim.whole_run_block(ctx, _random.Random(ctx.seed * 7919 + 13), 3 if ctx.quick() else 24, kinds=['split-on-grid', 'split-off-grid', 'reset', 'continue-beyond'])


def replay(rep):
    return False
