"""Access to the implementation under test (the working tree of /repo), imported in-process."""
import contextlib, io, os, sys, warnings, struct
from fractions import Fraction as Fr
import common

warnings.simplefilter("ignore")
sys.set_int_max_str_digits(0)
if common.REPO not in sys.path:
    sys.path.insert(0, common.REPO)
with contextlib.redirect_stdout(io.StringIO()):
    import numpy as np
    import desolver as de
    from desolver import integrators as I
    from desolver import backend as D
    from desolver.utilities import utilities as U
    from desolver.utilities import interpolation as INTERP
    from desolver.utilities import optimizer as OPT
    import desolver.differential_system as DS
assert os.path.abspath(de.__file__).startswith(os.path.abspath(common.REPO)), de.__file__


def fbits(x):
    """IEEE-754 binary64 bit pattern as the protocol token"""
    return "x%016x" % struct.unpack("<Q", struct.pack("<d", float(x)))[0]


def bits_to_float(tok):
    return struct.unpack("<d", struct.pack("<Q", int(tok[1:], 16)))[0]


def q(x):
    """exact rational token of a Fraction / int / float"""
    f = Fr(x)
    return str(f.numerator) if f.denominator == 1 else "%d/%d" % (f.numerator, f.denominator)


def parse_q(tok):
    return Fr(tok)


def qlist(xs):
    xs = list(xs)
    return ",".join(q(x) for x in xs) if xs else "-"


def flist(xs):
    xs = list(xs)
    return ",".join(fbits(x) for x in xs) if xs else "-"
