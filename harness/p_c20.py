"""C20 - evaluation counters and callbacks are exact."""
import impl, loopsim
from impl import np, de, I, DS

ID = "C20"
LEAN_TARGETS = ["DVP.Properties.C20"]
PROPERTY_FILES = ["DVP/Properties/C20.lean"]
RULE = ("(a) seeded op sequences on a DiffRHS wrapper (calls completing/raising, Jacobian requests via user Jacobian or finite differences, "
        "resets through an owning OdeSystem) compared with the Lean counter model; (b) whole runs of every method family (explicit, FSAL "
        "adaptive with rejections, implicit with finite-difference and with user Jacobian, splitting, Richardson) with and without events "
        "and dense output, with failures and resets: independent counters inside the user's functions vs nfev/njev; (c) callbacks: order, "
        "once per recorded step, visibility of the new state, dt assigned by a callback used next (also replayed through the Lean loop "
        "model). non-trivial = run with >= 5 evaluations; distinct by configuration")
ASSUMPTIONS = ["the evaluation made by the OdeSystem constructor to probe the output shape is a call 'since construction'"]


class Boom(Exception):
    pass


def f_lin(t, y):
    return np.array([y[1], -2.0 * y[0] - 0.1 * y[1]])


def jac_lin(t, y):
    return np.array([[0.0, 1.0], [-2.0, -0.1]])


class Counted:
    def __init__(self, with_jac=False):
        self.calls = 0
        self.done = 0
        self.jcalls = 0
        self.fault_after = None
        if with_jac:
            self.jac = self._jac

    def __call__(self, t, y, **kw):
        self.calls += 1
        if self.fault_after is not None and self.done >= self.fault_after:
            raise Boom("rhs fault")
        r = f_lin(t, y)
        self.done += 1
        return r

    def _jac(self, t, y, **kw):
        self.jcalls += 1
        return jac_lin(t, y)


def wrapper_ops(ctx, rng):
    """DiffRHS op sequences vs the counter model"""
    lines, cases = [], []
    for i in range(40 if ctx.quick() else 400):
        with_jac = rng.random() < 0.5
        u = Counted(with_jac)
        ode = de.OdeSystem(u, y0=np.array([1.0, 0.0]), t=(0, 1), dt=0.1)
        w = ode.equ_rhs
        ode.reset()      # start from zeroed counters
        base_done, base_j = u.done, u.jcalls
        ops = []
        for _ in range(rng.randint(1, 12)):
            r = rng.random()
            y = np.array([rng.uniform(-1, 1), rng.uniform(-1, 1)])
            t = rng.uniform(0, 2)
            if r < 0.4:
                ok = rng.random() < 0.8
                u.fault_after = None if ok else u.done
                try:
                    w(t, y)
                except Boom:
                    pass
                u.fault_after = None
                ops.append("c%d" % int(ok))
            elif r < 0.8:
                if with_jac:
                    w.jac(t, y)
                    ops.append("ju1")
                else:
                    before = u.done
                    ok = rng.random() < 0.8
                    u.fault_after = None if ok else u.done + rng.randint(0, 6)
                    try:
                        w.jac(t, y)
                    except Boom:
                        pass
                    u.fault_after = None
                    ops.append("jf%d:%d" % (u.done - before, int(ok)))
            else:
                ode.reset()
                ops.append("r")
        lines.append("counters " + ",".join(ops))
        cases.append((ops, w.nfev, w.njev, with_jac))
    outs = ctx.driver(lines)
    for (ops, nfev, njev, wj), o in zip(cases, outs):
        ctx.corr("counter-model", o == "%d %d" % (nfev, njev), dict(ops=ops, impl=[nfev, njev], model=o))
        ctx.count("wrapper:" + ("user-jac" if wj else "fd-jac"))
    ctx.sample(dict(kind="wrapper-ops", ops=cases[0][0], nfev=cases[0][1], njev=cases[0][2]))


def ev_nonterm(t, y, **kw):
    return y[0] - 0.2


def ev_term(t, y, **kw):
    return y[0] + 0.3
ev_term.is_terminal = True


def run_counts(ctx, rng):
    fams = [("RK4Solver", False), ("RK45CKSolver", False), ("DOPRI45", False), ("HeunEulerSolver", False), ("SymplecticEulerSolver", False),
            ("ABAs5o6HSolver", False), ("BackwardEuler", False), ("BackwardEuler", True), ("GaussLegendre4", True), ("RadauIIA5", False),
            ("CrankNicolson", True), ("Richardson", False)]
    for name, with_jac in fams:
        for dense in (False, True):
            for evs in (None, "nonterm", "term"):
                if ctx.quick() and rng.random() < 0.5:
                    continue
                u = Counted(with_jac)
                direction = rng.choice([1, -1])
                t0, tf = (0.0, 1.5) if direction > 0 else (1.5, 0.0)
                ode = de.OdeSystem(u, y0=np.array([1.0, 0.0]), t=(t0, tf), dt=0.1, dense_output=dense, rtol=1e-5, atol=1e-7)
                cls = de.integrators.generate_richardson_integrator(I.MidpointSolver, 3) if name == "Richardson" else getattr(I, name)
                ode.set_method(cls)
                inp = dict(kind="counters", method=name, user_jacobian=with_jac, dense=dense, events=evs, direction=direction)
                seen = []
                order = []

                def mkcb(tag):
                    def cb(o):
                        order.append(tag)
                        if tag == "a":
                            seen.append((len(o.t), len(o.y), float(o.t[-1])))
                    return cb
                events = None if evs is None else ([ev_nonterm] if evs == "nonterm" else [ev_nonterm, ev_term])
                try:
                    ode.integrate(callback=[mkcb("a"), mkcb("b"), mkcb("c")], events=events)
                except Exception as e:
                    ctx.oracle("run", False, inp, what="run raised %r" % (e,))
                    continue
                ctx.oracle("nfev-exact", ode.nfev == u.done, dict(inp, nfev=ode.nfev, counted=u.done), what="nfev=%d, the user's function completed %d calls" % (ode.nfev, u.done))
                if with_jac:
                    ctx.oracle("njev-exact", ode.njev == u.jcalls, dict(inp, njev=ode.njev, counted=u.jcalls), what="njev=%d, the user's Jacobian was called %d times" % (ode.njev, u.jcalls))
                # callbacks
                nsteps = len(ode.t) - 1
                ok_order = order == ["a", "b", "c"] * (len(order) // 3) and len(order) % 3 == 0
                ctx.oracle("callback-order", ok_order, inp, what="callbacks not invoked in the order given")
                ncb = len(seen)
                lens = [s[0] for s in seen]
                ok_once = all(b > a for a, b in zip(lens, lens[1:])) and (ncb == nsteps if evs != "term" else 1 <= ncb <= nsteps) and (ncb == 0 or lens[-1] == len(ode.t))
                ctx.oracle("callback-once-per-step", ok_once, dict(inp, invocations=ncb, steps=nsteps), what="%d callback invocations for %d recorded steps (lengths seen %s)" % (ncb, nsteps, lens[:6]))
                ok_vis = all(s[0] == s[1] for s in seen) and all(abs(s[2] - float(ode.t[s[0] - 1])) == 0 for s in seen)
                ctx.oracle("callback-sees-recorded-state", ok_vis, inp, what="a callback saw unpaired buffers or a time that is not the newest recorded one")
                # failure, then reset
                u.fault_after = u.done + rng.randint(1, 15)
                try:
                    ode.reset()
                    n_at_reset = u.done
                    ode.integrate()
                except de.exception_types.FailedIntegration:
                    pass
                except Exception as e:
                    ctx.oracle("run", False, inp, what="faulting run raised %r" % (e,))
                u.fault_after = None
                ctx.oracle("nfev-exact-after-failure", ode.nfev == u.done - n_at_reset, dict(inp, nfev=ode.nfev, counted=u.done - n_at_reset),
                           what="after reset + failing run nfev=%d, completed calls %d" % (ode.nfev, u.done - n_at_reset))
                ode.reset()
                ctx.oracle("reset-zeroes-counters", ode.nfev == 0 and ode.njev == 0, inp, what="after reset nfev=%d njev=%d" % (ode.nfev, ode.njev))
                if u.done >= 5:
                    ctx.nontrivial(str(inp))
                ctx.count("family:" + name)
    ctx.sample(dict(kind="counters-run", method="RK45CKSolver", checks=["nfev-exact", "callback-order", "callback-once-per-step"]))


def shared_wrapper(ctx, rng):
    """one DiffRHS instance (e.g. from @rhs_prettifier) used for several systems: each system counts its own calls"""
    for name, with_jac in [("RK4Solver", False), ("RK45CKSolver", False), ("BackwardEuler", False), ("RadauIIA5", True)]:
        u = Counted(with_jac)
        w = de.rhs_prettifier("dy = f(t, y)")(u)
        inp = dict(kind="shared-wrapper", method=name, user_jacobian=with_jac)

        def mk():
            o = de.OdeSystem(w, y0=np.array([1.0, 0.0]), t=(0.0, 1.0), dt=0.1, rtol=1e-5, atol=1e-7)
            o.set_method(getattr(I, name))
            return o
        try:
            a = mk()
            d0 = u.done
            a.integrate()
            na = u.done - d0 + 1
            b = mk()
            ctx.oracle("second-system-starts-fresh", b.nfev == 1 and b.njev == 0, dict(inp, nfev=b.nfev, njev=b.njev),
                       what="a second system built from the same wrapped rhs starts with nfev=%d njev=%d (expected 1, 0)" % (b.nfev, b.njev))
            ctx.oracle("first-system-count", a.nfev == na, dict(inp, nfev=a.nfev, counted=na), what="system A: nfev=%d, counted %d" % (a.nfev, na))
            a_before = (a.nfev, a.njev)
            d1 = u.done
            b.integrate()
            ctx.oracle("systems-count-independently", (a.nfev, a.njev) == a_before and b.nfev == u.done - d1 + 1, dict(inp, a=[a.nfev, a.njev], b=[b.nfev, b.njev]),
                       what="running system B changed system A's counters or B miscounted")
            b_before = (b.nfev, b.njev)
            a.reset()
            ctx.oracle("reset-is-per-system", (b.nfev, b.njev) == b_before and a.nfev == 0, inp, what="reset() of system A changed system B's counters")
        except Exception as e:
            ctx.oracle("shared-wrapper-run", False, inp, what="raised %r" % (e,))
        ctx.count("shared:" + name)


def preused_wrapper(ctx, rng):
    """a DiffRHS whose finite-difference Jacobian was already used on its own (the user looked at rhs.jac(t0, y0)) before systems are
    built from it: every system still counts all the calls made through it, and the user's own wrapper is not charged for them"""
    for name in ["BackwardEuler", "RadauIIA5", "ImplicitMidpoint", "RK45CKSolver"]:
        u = Counted(False)
        w = de.rhs_prettifier("dy = f(t, y)")(u)
        y0 = np.array([1.0, 0.0])
        inp = dict(kind="pre-used-wrapper", method=name)
        try:
            for tj in (0.3, 0.0, 0.0):      # the last look is at the time the systems start from
                w.jac(tj, y0)
            own = (w.nfev, w.njev)
            ctx.oracle("wrapper-counts-its-own-calls", w.nfev == u.done and w.njev == 3, dict(inp, nfev=w.nfev, counted=u.done, njev=w.njev),
                       what="stand-alone wrapper: nfev=%d, counted %d, njev=%d (3 requests)" % (w.nfev, u.done, w.njev))
            d0 = u.done
            a = de.OdeSystem(w, y0=y0, t=(0.0, 1.0), dt=0.1, rtol=1e-5, atol=1e-7)
            a.set_method(getattr(I, name))
            a.integrate()
            ctx.oracle("nfev-counts-completed-calls", a.nfev == u.done - d0, dict(inp, nfev=a.nfev, counted=u.done - d0, njev=a.njev),
                       key="pre-used-wrapper-miscounts", what="system built from a pre-used wrapper: nfev=%d but the rhs completed %d calls through it" % (a.nfev, u.done - d0))
            ctx.oracle("user-wrapper-not-charged", (w.nfev, w.njev) == own, dict(inp, before=list(own), after=[w.nfev, w.njev]),
                       what="the user's own wrapper counters moved from %r to %r while the system ran" % (own, (w.nfev, w.njev)))
            a.reset()
            d1 = u.done
            a.integrate()
            ctx.oracle("nfev-counts-completed-calls", a.nfev == u.done - d1, dict(inp, after="reset", nfev=a.nfev, counted=u.done - d1),
                       key="pre-used-wrapper-miscounts", what="after reset: nfev=%d but the rhs completed %d calls" % (a.nfev, u.done - d1))
        except Exception as e:
            ctx.oracle("pre-used-wrapper-run", False, inp, what="raised %r" % (e,))
        ctx.count("pre-used:" + name)


def callback_dt(ctx, rng):
    import random as _random
    rng2 = _random.Random(ctx.seed * 104729 + 20)
    scs, lines = [], []
    n_main = 40 if ctx.quick() else 400
    for i in range(n_main + n_main // 2):
        beyond = i >= n_main       # the target of the call lies beyond the end of the constructor's span: own random stream
        r = rng2 if beyond else rng
        cls = getattr(I, r.choice(["RK4Solver", "EulerSolver", "RK45CKSolver", "SymplecticEulerSolver"]))
        t0, tf = r.choice([(0.0, 2.0), (-1.0, 1.0), (2.0, 0.5), (1.0, -1.0)])
        dt = abs(tf - t0) / r.choice([6, 9, 14])
        cb = {k: dt * r.choice([0.5, 0.25, 1.5, -0.5]) for k in r.sample(range(0, 6), r.randint(1, 3))}
        if beyond:
            t0, tf_sys = t0, t0 + (tf - t0) * r.choice([0.2, 0.35])
            sc = loopsim.Scenario(cls, [("new", t0, tf_sys, dt), ("int", tf, dict(cb_dt=cb))], rtol=1e-6, atol=1e-8)
            ctx.count("callback-dt:target-beyond-span")
        else:
            sc = loopsim.Scenario(cls, [("new", t0, tf, dt), ("int", None, dict(cb_dt=cb))], rtol=1e-6, atol=1e-8)
        try:
            sc.run_impl()
        except loopsim.BudgetExceeded:
            continue
        rec = sc.records[-1]
        log = rec["log"]
        d = 1.0 if tf > t0 else -1.0
        for k, v in cb.items():
            if k + 1 < len(log):
                want = abs(v) * d
                nxt = log[k + 1]
                clipped = abs(nxt["h"]) < abs(want)
                ctx.oracle("callback-dt-used-next", nxt["h"] == want or clipped, dict(kind="callback-dt", method=cls.__name__, t0=t0, tf=tf, dt=dt, assigned={str(a): b for a, b in cb.items()}),
                           what="callback assigned dt=%r in iteration %d but the next requested step was %r" % (v, k, nxt["h"]))
        scs.append(sc)
        lines.append(sc.model_line())
    for sc, o in zip(scs, ctx.driver(lines)):
        sc.compare(ctx, o, "callback-loop")


def run(ctx):
    wrapper_ops(ctx, ctx.rng)
    run_counts(ctx, ctx.rng)
    shared_wrapper(ctx, ctx.rng)
    preused_wrapper(ctx, ctx.rng)
    callback_dt(ctx, ctx.rng)


def replay(rep):
    return False
