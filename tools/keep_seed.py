#!/usr/bin/env python3
"""keep_seed.py <seed_dir> <id> <property> "<needs>" "<caught by>" : store a confirmed seeded change under /verif/seeded/<id>/"""
import json, os, shutil, sys
sd, sid, prop, needs, caught = sys.argv[1:6]
dst = os.path.join('/verif/seeded', sid)
os.makedirs(dst, exist_ok=True)
for f in ('patch.diff', 'demo.py', 'notes.txt', 'confirm.txt'):
    if os.path.exists(os.path.join(sd, f)):
        shutil.copy(os.path.join(sd, f), os.path.join(dst, f))
conf = open(os.path.join(sd, 'confirm.txt')).read() if os.path.exists(os.path.join(sd, 'confirm.txt')) else ''
meta = dict(id=sid, property=prop, needs_to_manifest=needs,
            confirmed=dict(how="tools/confirm_seed.sh in a scratch worktree of /repo HEAD: demo exits 0 on the unchanged tree, 1 with the patch; the unedited suite passes with the patch",
                           result=conf.strip().split('\n')),
            checks_run="tools/try_seed.sh %s/patch.diff %s" % (dst, prop), caught_by=caught)
json.dump(meta, open(os.path.join(dst, 'meta.json'), 'w'), indent=1)
print('kept', dst)
