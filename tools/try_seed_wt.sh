#!/bin/bash
# usage: tools/try_seed_wt.sh <ABSOLUTE patch.diff> <Cxx> [<Cyy> ...]
# Like try_seed.sh, but leaves /repo alone: the patch is applied in a scratch worktree of /repo HEAD and the checks are
# pointed at it with VERIF_REPO (debug runs: --no-lean, evidence goes to evidence/_debug_*).  Several can run in parallel.
set -u
PATCH=$1; shift
W=/var/tmp/ts_$$
git -C /repo worktree add --detach $W HEAD >/dev/null 2>&1 || { echo "worktree failed"; exit 2; }
git -C $W apply "$PATCH" || { echo "patch does not apply"; git -C /repo worktree remove --force $W; exit 2; }
for c in "$@"; do
  echo "=== $c with $(basename $(dirname $PATCH))"
  (cd /verif && VERIF_REPO=$W timeout 3000 ./check $c --no-lean --tier ${TIER:-quick} 2>&1 | grep -v "^KNOWN-FINDING" | cut -c1-700 | tail -${LINES_OUT:-6})
done
git -C /repo worktree remove --force $W
