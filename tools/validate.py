#!/usr/bin/env python3
"""validate MANIFEST.json and evidence/*.json against the schemas (run with python3-vt)"""
import json, sys, glob, jsonschema
ok = True
m = json.load(open('/verif/MANIFEST.json'))
jsonschema.validate(m, json.load(open('/root/.vp/MANIFEST.schema.json')))
props = [json.loads(l)['id'] for l in open('/verif/properties.jsonl')]
claimed = [c['property_id'] for c in m['checks']]
na = [c['property_id'] for c in m.get('not_applicable', [])]
print('claimed', len(claimed), 'not_applicable', len(na), 'missing', sorted(set(props) - set(claimed) - set(na)))
sch = json.load(open('/root/.vp/EVIDENCE.schema.json'))
for f in sorted(glob.glob('/verif/evidence/C*.json')):
    try:
        jsonschema.validate(json.load(open(f)), sch)
    except Exception as e:
        ok = False
        print('INVALID', f, str(e)[:300])
print('ok' if ok else 'FAILED')
sys.exit(0 if ok else 1)
