#!/bin/bash
# run every claimed check (quick tier by default) against /repo and validate the evidence; usage: tools/run_all.sh [quick|thorough]
cd /verif
TIER=${1:-quick}
FAIL=0
for c in $(python3 -c "import json;print(' '.join(x['property_id'] for x in json.load(open('MANIFEST.json'))['checks']))"); do
  s=$(date +%s)
  out=$(timeout 7200 ./check $c --tier $TIER 2>&1); rc=$?
  echo "$c rc=$rc $(( $(date +%s) - s ))s :: $(echo "$out" | tail -1 | cut -c1-200)"
  [ $rc -ne 0 ] && { FAIL=1; echo "$out" | grep -v KNOWN | tail -5 | cut -c1-400; }
done
python3-vt tools/validate.py | tail -3
exit $FAIL
