#!/usr/bin/env python3
"""writes MANIFEST.json from the table below (kept in one place so that it stays valid)"""
import json
CHECKS = {
 "C11": dict(
   text="Proof by checked certificate, for the float64 coefficients the running classes hold (regenerated on every run; with w = z/2^K all "
        "polynomials are integer): the translator computes Adj(w), Q(w) = det(I - wA) (Faddeev-LeVerrier), P = Q + w b^T Adj 1, a Bezout "
        "identity U P + V Q = c != 0 and the bivariate expansion of (1+1e-12)^2 |Q(-u+iy)|^2 - |P(-u+iy)|^2; Lean checks the polynomial "
        "identities Adj (I - wA) = Q I, the definition of P, the Bezout identity and that the expansion has only non-negative "
        "coefficients and even powers of y (decide +kernel on all 16 tables incl. RadauIIA19), and PROVES (cert_sound, Mathlib complex "
        "numbers, list-polynomial evaluation homomorphisms) that a valid certificate implies: for every w with Re w <= 0, of any magnitude, "
        "Q(w) != 0 (no pole) and |P(w)| <= (1 + 1e-12)|Q(w)|. The certificates are tied to the generated tables of C01/C02 (same "
        "coefficients). The computed step of the real integrators on y' = lambda y (real and oscillatory-damped, |z| 1e-3..1e8) is compared "
        "with R(z) evaluated exactly. The step itself is proved too (step_is_stability_function, implicit_step_does_not_grow, finite sums over C): for "
        "ANY stage values solving the stage equations of y' = lambda y, Q(w) y1 = P(w) y0, hence |y1| <= (1 + 1e-12)|y0| for every h*lambda in "
        "the closed left half-plane. That the integrator's Newton solve returns such stage values is what the comparison checks. Extended-precision states (numpy.longdouble, the library's own dogleg solver) are driven through __call__ as well; that block exposed the genuine defect P32 (unconverged stage solves accepted), repaired in /repo 11f3fca.",
   note="Trusted: Lean kernel, standard axioms, translate.py (certificates are untrusted inputs, only the table extraction is trusted), "
        "harness. The slack 1e-12 is the effect of rounding the coefficients to float64 (|R| = 1 exactly on the imaginary axis for the "
        "Gauss/Lobatto IIIA/IIIB families); rounding inside the stage solve is covered by the comparison only.",
   technique="Lean 4 proof: certificate checking by kernel computation + soundness theorem over C (positivity of a bivariate expansion, Bezout) ",
   design="5 (C11)"),
 "C06": dict(
   text="Partial proof. Proved for every strictly increasing array of piece end times and every query: the lookup of DenseOutput returns "
        "the piece whose interval contains the query - for forward runs and (with the repaired lookup) for backward runs, where pieces are "
        "stored front-inserted; scalar and array lookups choose the same piece; a Hermite piece (regenerated from the source) reproduces "
        "the recorded states and slopes at both ends, so sol(t_k) = y_k whichever adjacent piece answers. Tied to the code by comparing "
        "find_interval / find_interval_vec of real dense outputs (15+ methods incl. Richardson wrappers, both directions, continued, "
        "event-resumed and fault-resumed histories) with the model bit for bit. The integrators' end-slope cache (the way a step's end "
        "slope becomes the next piece's start slope; three past defects lived there) is modelled (DV.SlopeCache) and proved consistent after "
        "EVERY history of completed and abandoned calls (start_slope_is_rhs_after_every_history), tied to the code by replaying call sequences "
        "with jumps, repeated starts and calls abandoned by a fault at a random evaluation. Measured on the implementation, not proved: the end "
        "slope a step computes equals the right-hand side at its end state (C02 gives it for the explicit model), reproduction of recorded states, array = scalar queries. The O(h^4) clause is a theorem about the regenerated piece: for "
        "every four times differentiable f (fourth derivative f4) whose end values and end slopes are the data of the piece, f(x) - H(x) = f4(xi)/24 (x-t0)^2 (x-t1)^2 "
        "for some xi inside the piece, either orientation (interpolation_error_smooth: four rounds of Rolle's theorem), hence at most "
        "max|f4| h^4/384 (interpolation_error_smooth_bound), with the exact error formula and sharpness of the constant on quartics "
        "(interpolation_error_on_quartic[_bound,_sharp]); the error against the closed-form solution is measured as well. Deep Richardson wrappers (7 levels) and the oracle every-recorded-step-has-a-piece are part of the dense-output runs.",
   note="Trusted: Lean kernel, standard axioms, translate.py (Hermite), harness. The slope caches of the integrators and the "
        "container's add/remove history are exercised, not modelled.",
   technique="Lean 4 proof (bisection specification lifted to both storage orders; generated Hermite identities) + bit-exact lookup correspondence + closed-form measurements",
   design="5 (C06)"),
 "C07": dict(
   text="Partial proof on a Lean model of the selection logic of handle_events and of the event bookkeeping in integrate, given what the "
        "root finder and the sampled event function delivered: every reported event is a monitored event that was located successfully and "
        "crosses in a direction compatible with its direction attribute; reported events are sorted along the direction of integration; an "
        "event is recorded only if its root lies inside the step and not within the duplicate tolerance of the last recorded event of the "
        "same function. Tied to the code by recomputing the probes for every step of seeded runs (1..6 events, 12 decades of scale, "
        "directions, terminal flags, both time directions, dense on/off, boundary crossings) and replaying selection and bookkeeping "
        "through the model. Not proved: closeness to a root of the exact trajectory (needs C05/C06); measured on the harmonic oscillator. "
        "Known findings: events are located on the cubic dense output (O(h^4)); event state vs dense output after a terminal stop. The literal constants of event handling (duplicate tolerance eps^0.7, probe offsets, receptive fields) are regenerated from the source text (event_constants_are_the_sources).",
   note="Trusted: Lean kernel, standard axioms, harness (the probe recomputation restates the code's sampling offsets).",
   technique="Lean 4 proof (insertion-sort/truncation lemmas, case analysis) + per-step replay of recorded probes + closed-form oracles",
   design="5 (C07-C09)"),
 "C08": dict(
   text="Partial proof on the selection model: a strict sign change across the located root is classified as a crossing whatever the scale "
        "of the event function (only signs enter); a successfully located compatible crossing passes the direction mask; every monitored "
        "event whose probe passes the mask is reported unless a terminal event with an earlier-or-equal root cuts the step; non-terminal "
        "events never hide each other (any number of events). The first link - the root finder reports success for every sign change - is "
        "C14's lane_sign_change_success since the repair of P14/P12 in /repo (before it half of the crossings of a plain oscillator were "
        "dropped for event functions of scale >= 10 at |t| >= 2). The whole chain is evaluated on the implementation: sign of g at "
        "consecutive recorded samples vs reported events. Families added after genuine defect P33 (repaired in /repo 8e91f12): runs far from the origin with steps tiny relative to |t|, and event functions down to 1e-18 monitored next to O(1) ones.",
   note="Trusted: Lean kernel, standard axioms, harness. The composition root finder -> probes -> selection is not one theorem: the probes' "
        "signs come from the dense output evaluated near the located root (measured).",
   technique="Lean 4 proof (completeness of sort+truncate) + per-step replay + sign-change oracle on recorded samples",
   design="5 (C07-C09)"),
 "C09": dict(
   text="Partial proof on the selection model and the loop model: a reported terminal event is the last reported event of its step, terminate "
        "is raised exactly when one is reported, it is the earliest active terminal event in the direction of integration, everything "
        "reported is sorted; the stop is an ordinary integrate(root) call, so the C03 theorem gives 'last recorded time within tolerance of "
        "the event time, nothing beyond'. Compared on the implementation: stop time, last state on the event surface, nothing beyond, "
        "status, monotone trajectory, dense-output order, continuation to the requested end. The whole call with events is a second Lean "
        "model (DV.LoopEv: the event step is written but not counted, selection and book-keeping computed by the model, roll-back, nested "
        "integrate(root), status 2, dt update and one callback round after the stop, up to three buffer growths per iteration, faults at "
        "every site), replayed bit for bit against integrate(t, events=...) on seeded operation sequences; theorems: "
        "terminal_stop_reports_status_two, terminal_stop_lands_on_event (the samples after a stop are those recorded before the event "
        "step followed by the nested call's steps, which end within max(eps, tolEps) of the root). Known findings: event time located on "
        "the cubic dense output; a later call that passes the same terminal event again stays at the stop and lists the crossing again (P30). The same event objects re-flagged (is_terminal / direction) between consecutive calls are part of the scenarios.",
   note="Trusted: Lean kernel, standard axioms, harness. Inputs of the event-loop model (oracle): integrator returns, callback actions, the "
        "probes delivered by the root finder and the sampled event functions (C14, C08), whether handle_events raises. Dense output and "
        "states are compared on the implementation.",
   technique="Lean 4 proof (truncation lemmas + C03 loop theorem + event-loop model DV.LoopEv with one invariant over all exits) + "
             "bit-exact replay of whole calls with events + terminal-stop oracles",
   design="5 (C07-C09)"),
 "C15": dict(
   text="Partial proof. The convergence of the iterations is numerical analysis and is not proved. Proved on a Lean model of the decision "
        "logic of nonlinear_roots over what its back ends report (MINPACK for numpy dtypes up to 64 bits, the built-in dogleg hybrj "
        "otherwise, then the newtontrustregion fall-back) and of its consumer in RungeKuttaIntegrator.step: success reached through a "
        "residual disjunct implies residual <= tol_epsilon on both paths; on the double-precision path the handed-back precision is the "
        "residual norm of the returned point, so an accepted implicit stage solve has residual below the requested tolerance whatever the "
        "back ends did; the consumer accepts iff success and prec < tol. Tied to the code by recording what the back ends returned (wrappers "
        "around the module's own functions) for a bank of systems (n = 1..12, shapes, with/without Jacobian, good/bad starts, singular "
        "Jacobians, systems without a root) and feeding it to the model. Known finding P21 (hybrj path claims success without a residual "
        "test), with a model-level counterexample in Findings/C15. Since fix P32 the residual norm is handed back on every path: accept_implies_small_residual proves that whatever the three back ends report, an accepted implicit stage solve has a residual norm below the requested tolerance. Solvers are also driven with var_bounds (cold and warm starts).",
   note="Trusted: Lean kernel, standard axioms, harness. MINPACK's own success flag and the numerical iterations are inputs of the model; "
        "every claimed success is checked against ||F(x)|| <= 100 tol sqrt(n) on the implementation.",
   technique="Lean 4 proof on a decision-logic model + recorded back-end outcomes + residual oracle on a bank of systems",
   design="5 (C15)"),
 "C16": dict(
   text="Partial proof. Proved on a Lean model of the private state machine of DiffRHS.jac: after EVERY sequence of jac(t, y) requests at "
        "varying times, hooks, attribute assignments, unhooks and set_jac_base_order calls, the next request is answered by the user's "
        "Jacobian if one is attached, else by the right-hand side's own jac attribute, else by finite differences of the right-hand side "
        "evaluated at the requested time (never at a cached time), and it never fails (dispatch_correct, by an invariant linking the "
        "private fields to the ghost 'attached function'); the finite-difference stencils regenerated from the code (2..8 nodes) are exact "
        "on polynomials below their node count to 1e-12. Tied to the code by replaying random op sequences on the real wrapper, observing "
        "who answered (tagged functions) and at which times the right-hand side was evaluated. Measured, not proved: accuracy on smooth "
        "non-polynomial maps, the [i..., j...] layout for non-square and multi-dimensional shapes, linear maps to rounding. The column loop of JacobianWrapper.estimate is modelled (DV.Jac.fdColumn) and compared with the implementation on polynomial maps for every base order (driver command fdcol, regenerated stencils); fd_column_of_affine_map proves for every affine map, point, direction and step that the computed column is (sum w / dy) f(y) + (sum w x) L e, i.e. the derivative up to the stencil defects bounded by stencils_exact; fd_column_exact_stencil. States in Fortran order / transposed / strided views are part of the oracle families.",
   note="Trusted: Lean kernel, standard axioms, translate.py (stencils), harness. Richardson extrapolation of the finite differences and its "
        "adaptive stopping rule are not modelled.",
   technique="Lean 4 proof (state-machine invariant over arbitrary op sequences; verified computation on generated stencils) + op-sequence differential testing",
   design="5 (C16)"),
 "C18": dict(
   text="Proof about a Lean model of the glue in solve_ivp plus the loop model of C03: args are bound in order to the parameters after (t, y); "
        "the step-clipping callback returns a step of magnitude within [min_step, max_step] with the sign of the current step (also for "
        "negative steps); the initial step is at most max_step; with the clipping callback after every step and a starting step within the "
        "bound, EVERY step requested from the integrator is at most max_step (loop_requests_bounded: any integrator, any span, either "
        "direction); the t_eval loop is a sequence of integrate(t) calls in the direction of integration, so the C03 call-sequence theorem "
        "gives the returned times. Tied to the code by comparing seeded solve_ivp calls (names/aliases/classes, forward/backward, t_eval "
        "variants, shapes, args, step limits, dense, events) bit for bit with driving the object API by hand; shapes, first column, t_eval "
        "times, max_step and scipy agreement (tolerance level) are evaluated on the results. With t_eval the per-time loop is part of the whole-run model (DV.Run.tevalLoop): it leaves exactly the system the same integrate(t) calls leave (t_eval_loop_is_the_object_api), returns one column per requested time and every column is a recorded sample (t, y) of that system (t_eval_columns_are_recorded_samples); solve_ivp(t_eval=...) with fixed-step methods is compared with the model (times exactly, columns against the exact states).",
   note="Trusted: Lean kernel, standard axioms, harness. The by-hand driver in the harness restates what the facade is documented to do; "
        "agreement with scipy is a measurement.",
   technique="Lean 4 proof (glue lemmas + loop invariant for bounded requests) + bit-exact differential testing against the object API",
   design="5 (C18)"),
 "C19": dict(
   text="Proof about a Lean model of OdeSystem.__getitem__ and of Python's iteration protocol: an integer index addresses the n samples "
        "like a sequence (0 <= i < n -> i, -n <= i < 0 -> n + i, else IndexError), iteration visits 0..n-1 once in order, and lookup by time "
        "without dense output returns an index minimising |t_i - q| for EVERY recorded grid (forward, backward, continued, non-uniform) and "
        "every query. Tied to the code by exhaustive index sweeps [-n-2, n+2] (int and numpy integers), bit-exact nearest/slice queries "
        "and whole-run slices on real recorded grids; the dense branch is compared with the dense solution. Time slices: for every strictly monotone grid (increasing, or decreasing "
        "with >= 2 samples), every window with closed or open ends and every sample inside the window, the slice contains that sample and stays "
        "inside the recorded samples; a slice from the first to the last recorded time returns the whole run (via the bisection theorem of C17).",
   note="Trusted: Lean kernel, standard axioms, harness. numpy's argmin / negative indexing semantics are modelled.",
   technique="Lean 4 proof (case analysis; fold invariant for argmin) + exhaustive/bit-exact differential correspondence",
   design="5 (C19)"),
 "C10": dict(
   text="Proof. Splitting schemes: on the regenerated tables every stage is a shear, the schemes are palindromic and consistent (verified "
        "computation); the Lean model of the coded step equals the composition of its drift/kick stage maps; for EVERY separable autonomous "
        "system over arbitrary Q-modules, every state and every h, a palindromic scheme of shears satisfies step(-h) o step(h) = id "
        "(palindromic_reversible); the product of the stage Jacobians (shears with symmetric Hessian blocks, any number of degrees of "
        "freedom) is in Mathlib's symplectic group (M J M^T = J). Implicit methods flagged symplectic: b_i a_ij + b_j a_ji - b_i b_j = 0 and "
        "table symmetry to 1e-14 on the generated coefficients; PROVED from it: for any table, any symmetric bilinear form B, any state, step "
        "of either sign and ANY stage slopes tangent to the invariant, B(y1,y1) - B(y0,y0) = -h^2 sum_ij m_ij B(k_i,k_j) (quadratic_invariant_defect), "
        "so the three shipped tables change a quadratic invariant by at most 1e-14 h^2 sum|B(k_i,k_j)| per step (symplectic_rk_quadratic_invariants). "
        "Cited: that the symplectic two-form is such an invariant of the variational system, chain rule for the Jacobian of the composition, Lasagni/Sanz-Serna/"
        "Suris theorem, backward error analysis (no secular energy drift). Measured on the implementation: M^T J M = J by finite "
        "differences, h then -h, long-run energy, for all 6 methods, 4 Hamiltonians, two variable orderings (kick masks). Energy clause: for the shipped kick-drift-kick table (regenerated SymplecticEulerSolver) on the harmonic oscillator the modified energy p^2 + (1 - h^2/4) q^2 is an exact invariant of the coded step (kdk_modified_energy_invariant, coded_symplectic_euler_step_is_kdk), hence after ANY number of steps the energy stays within [(1 - h^2/4) E0, E0 / (1 - h^2/4)] for |h| < 2 (kdk_energy_bounded_for_all_times: no secular drift, proved for this Hamiltonian); checked on the implementation over long runs.",
   note="Trusted: Lean kernel, standard axioms, translate.py, harness. The step model is tied to the code by C02's exact-rational "
        "correspondence incl. random kick masks.",
   technique="Lean 4 proof (Mathlib symplectic group; list induction for reversibility; verified computation on generated tables) + finite-difference measurements",
   design="5 (C10)"),
 "C05": dict(
   text="Partial proof. Proved: the arctan limiter keeps the correction factor in [1 - pi/4, 1 + pi/2) for every non-negative raw correction "
        "(Mathlib real analysis), so proposals keep the sign of the step and never vanish and a rejection (corr < 0.81) proposes a strictly "
        "smaller magnitude; on a Lean model of the accept/retry loop of __call__: the attempted steps of one call strictly decrease in "
        "magnitude for steps of either sign, an error is raised after exactly 1+64 attempts, an accepted call honours the integrator "
        "contract of the C03 loop theorems, and on the memory-less controller branch acceptance forces the scaled error estimate below one "
        "(uses tan 0.19 < 0.2, proved). The model is tied to the code by replaying every recorded __call__ of seeded adaptive runs bit for "
        "bit. NOT proved (numerical analysis): global error <= C x tolerance x amplification; it is measured by tolerance sweeps on "
        "closed-form problems, both directions, initial steps 1e-4..5, as validation and failing-input search. Composition with the time-grid machine: DV.Run.ctrlOrc makes the accept/retry model the integrator of the C03 loop; controller_is_an_admissible_integrator and adaptive_run_covers_span prove for every behaviour of the error estimates that a whole adaptive run records only accepted steps, strictly monotonically toward the target, and ends within max(eps, tolEps) of it or raises. The controller's literal constants (0.8, 0.9^2, 64 retries) are regenerated from the source text and tied to the theorems (controller_constants_are_the_sources). Error estimates that are not numbers (0/0, overflow) must not be accepted: undefined_estimate_block.",
   note="Trusted: Lean kernel, standard axioms (Mathlib real analysis), harness. The error estimate's relation to the true local error and "
        "the accumulation of local errors are outside the proof; update_timestep's power-law part is an input of the model (its output is "
        "recorded and replayed).",
   technique="Lean 4 proof (Mathlib arctan bounds; induction over the retry loop) + bit-exact replay of recorded controller decisions + tolerance sweeps",
   design="5 (C05)"),
 "C02": dict(
   text="Proof over an arbitrary Q-module, for EVERY right-hand side f, time, state, step of either sign and any stale content of the stage "
        "storage, about Lean models of compute_step / RungeKuttaIntegrator.step / ExplicitSymplecticIntegrator.step and of the accept/retry "
        "logic of __call__: the masked stage sum is the full sum; for an explicit table the slopes left in the storage satisfy "
        "k_i = f(t + c_i h, y + h sum_j a_ij k_j) (computeStep_spec, induction over the stage loop); the increment is h sum b_i k_i on the "
        "generic and on the FSAL branch; the shipped explicit tables (regenerated) are strictly lower triangular and DOPRI45 is the only "
        "FSAL one; an implicit call that returns hands back an attempt whose Newton flag was set, otherwise it raises after exactly 1+64 "
        "attempts. Tied to the code by comparing step() and __call__ sequences of all 32 methods in float32/64/longdouble on random "
        "polynomial right-hand sides with the exact rational model value and with the Runge-Kutta definition; returned implicit stages are "
        "substituted into the stage equations exactly. The implicit acceptance is composed with the solver front end of C15: the attempt handed back solved its stage equations with a residual norm below the tolerance on every back-end path (implicit_step_handed_back_has_small_residual; the extended-precision path since fix P32). Whole adaptive explicit runs are judged step by step in exact arithmetic (harness/runsim.py: every recorded state is its predecessor advanced by one step of the scheme).",
   note="Trusted: Lean kernel, standard axioms, translate.py (tables), harness. Rounding of the vector kernels is bounded by 2000 eps x magnitude "
        "in the comparison, not formalised; the meaning of the nonlinear solver's precision is C15's.",
   technique="Lean 4 proof (induction over the stage loop in an arbitrary module; case analysis of the retry loop) + exact-rational differential correspondence",
   design="5 (C02)"),
 "C12": dict(
   text="Partial proof on the loop model of C03 with an environment that may raise at any iteration: for EVERY fault position the recorded "
        "times and step after the fault are exactly those of the fault-free run stopped after the accepted iterations (loop_fault_prefix), "
        "the status reports failure (3) or keyboard interrupt (4), the buffers are trimmed, a call that returns normally afterwards reports "
        "success, and any later call sequence extends the kept prefix monotonically (C03 theorems admit faults). Tied to the code by replay "
        "of fault scenarios and by exhaustive crash-point enumeration on the real OdeSystem (every rhs evaluation / callback / event "
        "evaluation of short runs of 6 method families, both directions; prefix bit for bit, cause chaining, resume, reset). Calls with "
        "events are covered by the event-loop model DV.LoopEv (theorem event_call_keeps_what_was_recorded: for every behaviour of the "
        "integrator, the event functions - a raising one drops the step -, the callbacks and the nested call of a terminal event, the "
        "samples and events recorded before the call stay in place; dense_pieces_are_the_recorded_steps[_backward]: with dense output on, "
        "the container holds exactly one piece per recorded step after every exit of the call), replayed bit for bit on fault-heavy "
        "operation sequences incl. the dense-output knots. With the STATES: for explicit one-step methods the recorded states are a function of "
        "the recorded times (DV.Run.ysOf), so the samples left by a fault are exactly those of the fault-free run stopped there "
        "(fault_leaves_prefix_of_samples); tied to the code by harness/runsim.py (fault at a random right-hand-side evaluation of fixed-step "
        "runs vs the whole-run model incl. the resumed call; adaptive explicit runs, also abandoned ones, judged step by step in exact arithmetic).",
   note="Trusted: Lean kernel, standard axioms, harness. Outside the models: integrator-internal state after a fault, dense-output "
        "container (checked by the enumeration on the implementation only).",
   technique="Lean 4 proof (induction over the fault position) + crash-point enumeration + bit-exact replay",
   design="5 (C12)"),
 "C13": dict(
   text="Partial proof on the loop model: after ANY sequence of integrate calls with any environment (faults, callbacks, reversals), dt "
        "assignments and resets, reset() yields a time-grid state observationally equal to the freshly constructed system "
        "(reset_restores, via the invariant that no operation changes t0, tf, the initial step or the first sample); a call made at the "
        "target changes nothing (at_target_noop). The states, integrator memory, events, dense output and counters are compared on the "
        "implementation: random op sequences from the property's alphabet, then reset() and re-run vs a fresh system bit for bit; identical "
        "sequences bitwise; split runs vs single runs at method accuracy; caller's y0/constants untouched. Whole-run model DV.Run (time grid + "
        "recorded states, fixed-step explicit RK and splitting methods): a run split at one of its own grid points (at least one whole step "
        "before the target) records exactly the times AND states of the single call (split_at_grid_point_changes_no_sample, with a decided "
        "counterexample showing that the distance hypothesis cannot be dropped); tied to the code by harness/runsim.py (dyadic plans: times "
        "exactly, states against the exact rational states of the model). With the states (DV.Run): after reset(), whatever calls were made before, any later sequence of calls records exactly the times, states and step of a freshly constructed system (reset_then_rerun_equals_fresh: the two systems differ only in buffer capacity and status, which do not influence what is recorded), and reset() leaves the single sample (t0, y0) (reset_back_at_initial_condition).",
   note="Trusted: Lean kernel, standard axioms, harness. The bitwise clauses about y are measurements on the implementation; the model "
        "covers the time grid, dt and status.",
   technique="Lean 4 proof (invariant over arbitrary op lists) + differential op-sequence testing against fresh systems + replay",
   design="5 (C13)"),
 "C20": dict(
   text="Proof about a small Lean model of the counter bookkeeping (increment after the user function returned, finite-difference "
        "Jacobians evaluate through the counting wrapper, reset zeroes): after any history nfev/njev equal the completed calls / requests "
        "since the last reset; callback clauses proved on the loop model (assigned dt is stored and requested next, callbacks see the "
        "recorded step). The substance is the correspondence: DiffRHS op sequences vs the model, independent counters inside the user's "
        "rhs/Jacobian vs nfev/njev for 12 method configurations x dense x events x direction incl. failures and resets, callback order / "
        "once-per-step / visibility, and replay of callback-dt scenarios through the loop model. A right-hand-side wrapper that was used on its own before systems are built from it, and callbacks assigning dt in calls whose target lies beyond the constructor's span, are part of the scenarios.",
   note="Trusted: Lean kernel, standard axioms, harness. The counter model is deliberately tiny; where evaluations happen inside the "
        "integrators is not modelled but measured with independent counters.",
   technique="Lean 4 proof on counter/loop models + independent-counter differential testing",
   design="5 (C20)"),
 "C04": dict(
   text="Partial proof. Proved over Q on the loop model of C03 for a fixed-step integrator (the oracle that takes every requested step "
        "whole and proposes it again): for every span of any sign pattern and direction, every dt != 0 and any number of steps, every "
        "step requested from the integrator equals dt exactly except possibly the last, which is the clipped remainder and shorter "
        "(loop_fixed_requests), the starting step of a call points at the target and keeps the requested magnitude; all C03 grid theorems "
        "apply. Tied to the code by bit-exact replay and by exact comparison of recorded requests with dt for all 10 fixed-step explicit/"
        "splitting methods. Known finding P8: implicit methods without estimator grow the step. Shift and reflection: proved for the whole "
        "time-grid state machine (integrate_shift / integrate_refl by induction over the loop: for every system, target, shift, oracle "
        "and number of steps the shifted / mirrored run records the shifted / mirrored times with the same / mirrored requests, dt, status), "
        "relative to an integrator whose returns are equivariant; the explicit RK step of an autonomous right-hand side is shown not to depend "
        "on the time at all (rfl on the step model of C02), and the step of the time-reversed problem f'(t,y) = -f(-t,y) by -h is the mirrored "
        "step for every f, table, state and step (step_reflection: same increment, negated stages and end slope). The computed STATES: on the whole-run model DV.Run (time grid + recorded states) the shifted run of "
        "an autonomous system and the backward run of the time-reflected problem record exactly the same states, for explicit RK tables and "
        "drift/kick compositions, every right-hand side, span, step and call history (shifted_run_computes_same_states, "
        "reflected_run_computes_same_states, rk_increment_ignores_time_when_autonomous, increment_of_reversed_problem); DV.Run is tied to "
        "the code by harness/runsim.py (whole runs: times exactly, states against exact rationals). For adaptive methods the agreement of "
        "paired runs is measured (tolerance level).",
   note="Trusted: Lean kernel, standard axioms, harness. Not in the loop model: the states y (the step model of C02 carries them), IEEE "
        "rounding of t + dt (shifted floating-point times differ in their last bits; the theorem is over Q).",
   technique="Lean 4 proof (invariant by induction over fuel) on the C03 loop model + exact request comparison + paired runs",
   design="5 (C04)"),
 "C03": dict(
   text="Proof over Q about a Lean model of the OdeSystem time-grid state machine (construction, integrate(t) without events, direction "
        "fix, step clipping, buffer growth, loop guard, final-step test, dt update, callbacks assigning dt, faults, status, setters, reset) "
        "with the integrator as an oracle: for EVERY integrator behaviour honouring the contract (non-zero step in the direction of the "
        "request, not longer than it, non-zero proposal), every span and sign pattern, every dt != 0 and every sequence of calls, the grid "
        "is extended by samples moving strictly monotonically toward the target without passing it, earlier samples (incl. the first) are "
        "untouched, and a call that returns through the loop guard ends within max(eps, tolEps) of the target; a whole final step lands "
        "exactly (theorems loop_grid, integrate_grid, call_sequence_covers_spans). Tied to the code by bit-exact float64 replay of recorded "
        "operation sequences (times, dt, status, capacity, every requested step). States: the whole-run model DV.Run puts the recorded states "
        "back for fixed-step explicit RK and splitting methods; fixed_step_samples_paired proves for every right-hand side and any sequence of "
        "calls that times and states stay paired, the first sample is (t0, y0) and every state is its predecessor advanced by one step of the "
        "method over the recorded interval; harness/runsim.py compares whole runs of the real OdeSystem with it (times exactly, states "
        "against exact rationals) and evaluates the per-step relation independently of the model. Literal constants of the loop (buffer cap 5000, halving 0.5, epsilon = 4 eps, tol_epsilon = 32 eps) are regenerated from the source text and tied to the model (loop_constants_are_the_sources).",
   note="Trusted: Lean kernel, standard axioms, harness. Modelled, not verified: IEEE rounding (theorems over Q; replay is bit-exact on "
        "generated inputs), the states y (pairing/finite/dtype are checked on the implementation only), event handling (C07-C09). The "
        "integrator contract is an explicit hypothesis, checked on every recorded return.",
   technique="Lean 4 proof (loop invariant by induction over fuel / call list) + bit-exact Float replay of recorded runs",
   design="5 (C03)"),
 "C14": dict(
   text="Proof over Q for every function f (continuous or not), every bracket in either order and every tolerance, about a "
        "statement-by-statement Lean model of brentsroot and of one lane of brentsrootvec: the returned point is inside the bracket, a "
        "bracketed sign change stays bracketed (invariant f a * f b <= 0, |f b| <= |f a|), on regular exit the bracket is narrower than the "
        "width tolerance xtol = max(tol, 4 eps max(|lo|,|hi|)) so the point is within xtol of a sign change, success implies |f(root)| <= tol "
        "or a sign change within xtol of the returned point, a rejected bracket never claims success; the completeness clause - a sign "
        "change over the bracket is reported as a success whatever the scale or steepness of f, unless the iteration cap stops the solver "
        "(sign_change_success, lane_sign_change_success) - became provable with the repair of P14 in /repo; lane versions of all of these. "
        "The model is tied to the code by bit-exact float64 replay of the implementation's iterate sequences (root bits, flag, every "
        "evaluated point). Known finding P14b: the iteration cap (c is never advanced, so interpolation steps alternate with forced "
        "bisections) stops the solver on jump discontinuities with the bracket still wider than xtol. The iteration cap of both solvers is regenerated from the source text and tied to the models (brent_cap_is_the_sources); function values whose pairwise products overflow are part of the families.",
   note="Trusted: Lean kernel, the 3 standard axioms, harness. Theorems are over exact rationals; float rounding inside the solver is covered "
        "only by the bit-exact replay on generated inputs. Vector solver modelled lane-wise (lanes are independent given the masks); "
        "vector/scalar agreement is checked on the implementation, not proved.",
   technique="Lean 4 proof (loop invariants by induction over fuel) + bit-exact Float replay of the implementation's iterates",
   design="5 (C14)"),
 "C01": dict(
   text="Proof over generated data: the translator re-extracts every coefficient table (exact float64 values as integers over 2^K) "
        "and the declared order from /repo on every run; Lean theorems state, per method, that ALL rooted-tree order conditions "
        "up to the declared order hold to 1e-12 for the propagating weights, that abscissae equal row sums and that the estimator "
        "weights are consistent (decide +kernel; native_decide for RK108, RK1412, RadauIIA19). The checker itself is PROVED sound for every "
        "table (checkOrder_sound / accepted_order_covers_every_tree, by induction over the de-duplicated enumeration): an accepted check "
        "implies the order condition for EVERY well-formed coloured tree in Butcher-product form with at most p vertices. Splitting schemes are checked as "
        "partitioned RK methods over alternating bicoloured trees. The Richardson table is modelled as coded and its weights are "
        "proved to sum to one and to annihilate exactly h^1..h^(R-2) (order max(p, R-1)). Partial: RadauIIA19 via trees to order 10 + "
        "simplifying assumptions B(19),C(10),D(9); RK1412 to order 12 in the quick tier (14 in thorough). Known findings: the two "
        "Nielsen splitting schemes (order 4, declared 7/6) and Richardson wrappers not raising the order. The Richardson block checks that generate_richardson_integrator(basis, R) really has R levels after shallower requests for the same basis.",
   note="Trusted: Lean kernel + compiler for the three native_decide theorems; translate.py; Butcher's theorem, P-series theory and "
        "Gragg's expansion are cited (the theorems prove the algebraic conditions for the code's coefficients); the enumeration "
        "is sound for every tree by DVP.Trees.checkOrder_sound (level sizes are additionally compared with OEIS A000081 on every run); that the code "
        "propagates with row 0 and extrapolates as modelled is tied by the correspondence runs of C01 (Richardson) and C02 (step).",
   technique="Lean 4 proof: verified computation over tables regenerated from source (decide +kernel / native_decide) with a proved-sound checker (induction over the tree enumeration) + Richardson table model with differential correspondence",
   design="5 (C01)"),
 "C17": dict(
   text="Full proof: for every strictly increasing array of every length >= 1 over any linear order and every query, "
        "the scalar and vector bisection models return the first index whose element is >= the query, clipped to the "
        "last index, and agree (Lean theorems bisect_scalar_spec, bisect_vector_spec, bisect_vector_eq_scalar); the "
        "Hermite value/gradient, regenerated from interpolation.py on every run, reproduce end values, end slopes and "
        "every cubic over any field, for either orientation, and the gradient is the derivative of the value. "
        "The bisection model is tied to the code by an exhaustive small-scope differential run (all strictly increasing "
        "arrays of length 1..7 over a 9-point grid, all half-integer queries) plus bit-exact float64 replay. Queries whose dtype differs from the array's (integer / float32 / float16 queries) and a Hermite piece queried with a time array advanced in place are part of the oracle families.",
   note="Trusted: Lean kernel, propext/Classical.choice/Quot.sound, translate.py (Hermite AST -> Lean), the harness. "
        "Rounding of the float evaluation of the Hermite formula is outside the theorems (exact field arithmetic); it is "
        "compared under a 64-ulp forward bound. The vector search is modelled lane-wise.",
   technique="Lean 4 proof (loop invariant by functional induction; field_simp/ring) + generated definitions + exhaustive differential correspondence",
   design="5 (C17)"),
}
NOT_YET = {}
def main():
    props = [json.loads(l)['id'] for l in open('/verif/properties.jsonl')]
    checks = []
    for pid in props:
        if pid in CHECKS:
            c = CHECKS[pid]
            checks.append(dict(property_id=pid, quick_cmd="./check %s --tier quick" % pid,
                               thorough_cmd="./check %s --tier thorough" % pid,
                               evidence_file="/verif/evidence/%s.json" % pid,
                               replay_cmd_template="./check %s --replay {path}" % pid,
                               engine="lean4-proof+correspondence",
                               level_claimed=dict(category="proof", text=c["text"], design_ref="DESIGN.md section " + c["design"]),
                               level_note=c["note"], technique=c["technique"]))
    na = [dict(property_id=p, reason=NOT_YET.get(p, "check not built yet in this round (work in progress; see DESIGN.md, Changes since round 0)"))
          for p in props if p not in CHECKS]
    m = dict(version=1,
             setup_cmd="cd /verif/lean && lake build",
             hooks=dict(guard="DESOLVER_VERIF", enable="no source hooks: the harness observes the implementation through recording subclasses and wrappers created at run time",
                        baseline_off_cmd="cd /repo && /venv/bin/python -m pytest -ra -q -p no:cacheprovider --timeout=900 --continue-on-collection-errors",
                        source_commits=[], add_only=True),
             engines=[dict(name="lean4-proof+correspondence", path="/verif/check", serves_properties=[c["property_id"] for c in checks],
                           kind_free_text="Lean 4 theorems about generated + hand-written models (lake build, #print axioms audit), tied to /repo by tools/translate.py and a differential harness driving the compiled model driver")],
             checks=checks, not_applicable=na,
             notes="Every check: regenerate Lean data from /repo, lake build, axiom audit, model-vs-implementation correspondence, property oracles on the implementation, known findings (known_findings.json).")
    json.dump(m, open('/verif/MANIFEST.json', 'w'), indent=1)
main()
