#!/bin/bash
# usage: tools/stage_seed.sh <dir with patch.diff demo.py notes.txt> <id> <Cxx> : stage a candidate change under /var/tmp/seedstage/<id>,
# confirm it (demo + unedited suite, scratch worktree) and try it against the quick check of its property (scratch worktree), both in the background
S=/var/tmp/seedstage; mkdir -p $S/$2
cp $1/patch.diff $1/demo.py $1/notes.txt $S/$2/ 2>/dev/null
(nohup /verif/tools/confirm_seed.sh $S/$2 > $S/$2.confirm.log 2>&1 &)
(cd /verif && LINES_OUT=4 nohup tools/try_seed_wt.sh $S/$2/patch.diff $3 > $S/$2.try.log 2>&1 &)
echo staged $2
