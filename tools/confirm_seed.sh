#!/bin/bash
# usage: confirm_seed.sh <seed_dir> : independently confirm a seeded change in a scratch worktree:
#   demo passes on the unchanged tree, fails with the patch, and the unedited test suite passes with the patch.
SD=$1; NAME=$(basename $SD)
WT=/var/tmp/cs_$NAME
OUT=$SD/confirm.txt
rm -rf $WT; git -C /repo worktree add --detach $WT HEAD >/dev/null 2>&1 || { echo "worktree failed" > $OUT; exit 2; }
cd $WT
echo "base commit: $(git rev-parse --short HEAD)" > $OUT
PYTHONPATH=$WT timeout 900 /venv/bin/python -W ignore $SD/demo.py > $SD/demo_clean.log 2>&1; echo "demo on unchanged tree: exit $?" >> $OUT
git apply $SD/patch.diff || { echo "patch does not apply" >> $OUT; git -C /repo worktree remove --force $WT; exit 2; }
PYTHONPATH=$WT timeout 900 /venv/bin/python -W ignore $SD/demo.py > $SD/demo_patched.log 2>&1; echo "demo with patch: exit $?" >> $OUT
PYTHONPATH=$WT timeout 3000 /venv/bin/python -m pytest -q -p no:cacheprovider --timeout=900 -x > $SD/suite_patched.log 2>&1
echo "suite with patch: $(tail -1 $SD/suite_patched.log)" >> $OUT
cd /; git -C /repo worktree remove --force $WT
cat $OUT
