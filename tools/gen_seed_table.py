#!/usr/bin/env python3
"""rewrite the seeded-change table of DESIGN.md (section R6) from /verif/seeded/*/meta.json"""
import json, glob, re
p = '/verif/DESIGN.md'
s = open(p).read()
rows, missed = [], 0
for f in sorted(glob.glob('/verif/seeded/*/meta.json')):
    m = json.load(open(f))
    c = m['caught_by'].replace('|', '/').replace('\n', ' ')
    n = m['needs_to_manifest'].replace('|', '/').replace('\n', ' ')
    first = 'missed, then caught' if ('MISSED' in c or 'after a first miss' in c or 'first run' in c or 'no-failing-input-found' in c or 'at first' in c or 'after strengthening' in c or 'rebased' in m) else 'caught'
    missed += first != 'caught'
    rows.append("| %s | %s | %s | %s |" % (m['id'], n[:170], first, c[:330]))
head = "| seed | needs, to show | first run | caught by |\n|---|---|---|---|\n"
i = s.index(head)
j = s.index("\n### R7", i)
s = s[:i] + head + "\n".join(rows) + "\n" + s[j:]
open(p, 'w').write(s)
print(len(rows), "seeds,", missed, "missed at first")
