#!/bin/bash
# usage: tools/try_seed.sh <patch.diff> <Cxx> [<Cyy> ...]  : apply a seeded change to /repo, run the checks, undo it
set -u
PATCH=$1; shift
cd /repo || exit 2
if [ -n "$(git status --porcelain)" ]; then echo "/repo not clean"; exit 2; fi
git apply "$PATCH" || { echo "patch does not apply"; exit 2; }
for c in "$@"; do
  echo "=== $c with $(basename $(dirname $PATCH))"
  (cd /verif && timeout 3000 ./check $c --tier ${TIER:-quick} 2>&1 | grep -v "^KNOWN-FINDING" | cut -c1-700 | tail -${LINES_OUT:-6})
done
git -C /repo checkout -- .
# restore generated Lean files to the unchanged tree
(cd /verif && /venv/bin/python -W ignore tools/translate.py > /dev/null 2>&1)
